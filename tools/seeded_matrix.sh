#!/bin/bash
# Re-run every seeded change under /verif/seeded against the quick check of the property it breaks
# (scratch worktrees of /repo HEAD, never /repo itself) and write /verif/seeded/MATRIX.md.
# usage: tools/seeded_matrix.sh [id ...]
cd /verif
ids="$@"; [ -z "$ids" ] && ids=$(ls seeded | grep -E '^C[0-9]+-' )
out=/verif/seeded/MATRIX.md
echo "| change | property | caught by own quick check | violations reported |" > $out.tmp
echo "|---|---|---|---|" >> $out.tmp
for id in $ids; do
  prop=${id%%-*}
  wt=/tmp/mx-$id-$$
  git -C /repo worktree add -q --detach "$wt" HEAD || continue
  if git -C "$wt" apply /verif/seeded/$id/patch.diff; then
    o=/tmp/mutout/mx-$id; rm -rf $o; mkdir -p $o
    VERIF_REPO=$wt VERIF_OUT=$o /verif/check $prop quick > $o/log 2>&1; rc=$?
    nv=$(grep -c "^VIOLATION property=$prop " $o/log)
    note=""
    if [ $rc != 1 ]; then
      # not caught by its own property's check: try the checks recorded as catching it (meta.json caught_by)
      for alt in $(python3 -c "import json;print(' '.join(x for x in json.load(open('/verif/seeded/$id/meta.json')).get('caught_by',[]) if x!='$prop'))"); do
        VERIF_REPO=$wt VERIF_OUT=$o /verif/check $alt quick > $o/log.$alt 2>&1; arc=$?
        [ $arc = 1 ] && note="$note; caught by $alt ($(grep -c "^VIOLATION property=$alt " $o/log.$alt) violations)"
      done
    fi
    echo "| $id | $prop | $([ $rc = 1 ] && echo yes || echo "NO (exit $rc)$note") | $nv |" >> $out.tmp
    echo "$id rc=$rc violations=$nv$note"
  else
    echo "| $id | $prop | patch does not apply | - |" >> $out.tmp
  fi
  git -C /repo worktree remove --force "$wt"
done
if [ $# -eq 0 ]; then mv $out.tmp $out; else cat $out.tmp; rm -f $out.tmp; fi
