#!/bin/bash
# usage: tools/confirm_mutant.sh <seed-id> <dir with patch.diff demo.c build.sh notes.md> <prop> [extra props to run]
# Confirms a seeded change in a scratch worktree (never in /repo): demo passes without / fails with the patch,
# the 30 tests pass with it; then runs the quick check(s) against it. Results -> /verif/seeded/<seed-id>/.
set -u
id=$1; src=$(readlink -f "$2"); prop=$3; shift 3
wt=/tmp/cfm-$id-$$
dst=/verif/seeded/$id
git -C /repo worktree add -q --detach "$wt" HEAD || exit 2
cleanup() { git -C /repo worktree remove --force "$wt" 2>/dev/null; rm -rf "$wt"; }
trap cleanup EXIT
mkdir -p "$wt/out" && cp "$src"/patch.diff "$src"/demo.c "$src"/build.sh "$src"/notes.md "$wt/out/" 2>/dev/null
chmod +x "$wt/out/build.sh"
( cd "$wt" && ./out/build.sh >/tmp/cfm-$id-clean.log 2>&1 ); clean_rc=$?
( cd "$wt" && git apply out/patch.diff ) || { echo "$id: patch does not apply"; exit 2; }
( cd "$wt" && cmake -G Ninja -S . -B _b >/dev/null 2>&1 && cmake --build _b >/tmp/cfm-$id-build.log 2>&1 && ctest --test-dir _b -j8 2>&1 | grep -E "tests passed|tests failed" ) > /tmp/cfm-$id-tests.log
tests=$(cat /tmp/cfm-$id-tests.log)
( cd "$wt" && ./out/build.sh >/tmp/cfm-$id-mut.log 2>&1 ); mut_rc=$?
echo "$id: demo clean rc=$clean_rc, demo with patch rc=$mut_rc, tests: $tests"
if [ "$clean_rc" != 0 ] || [ "$mut_rc" = 0 ] || ! echo "$tests" | grep -q "100% tests passed"; then echo "$id: NOT CONFIRMED"; exit 1; fi
mkdir -p "$dst" && cp "$wt/out/patch.diff" "$wt/out/demo.c" "$wt/out/build.sh" "$wt/out/notes.md" "$dst/"
out=/tmp/mutout/$id; rm -rf "$out"; mkdir -p "$out"
caught=""; res=""
for p in "$prop" "$@"; do
  VERIF_REPO=$wt VERIF_OUT=$out /verif/check "$p" quick > "$out/$p.log" 2>&1; rc=$?
  nv=$(grep -c "^VIOLATION property=$p " "$out/$p.log")
  rule=$(grep -m1 "rule=" "$out/$p.log" | sed -E 's/.*rule=([^ ]+).*/\1/')
  res="$res $p:rc=$rc:violations=$nv:${rule:-none}"
  [ "$rc" = 1 ] && caught="$caught $p"
done
echo "$id: checks:$res"
python3 - "$id" "$prop" "$caught" "$res" "$tests" <<'PY'
import json,sys,os
id,prop,caught,res,tests=sys.argv[1:6]
notes=open('/verif/seeded/%s/notes.md'%id).read()
meta={"id":id,"breaks_property":prop,"needs_to_manifest":"see notes.md (written by the independent sub-agent that produced the change)",
"confirmed":{"demo_on_unchanged_tree":"exit 0","demo_with_patch":"non-zero","existing_tests_with_patch":tests.strip()},
"ran":["scratch worktree of /repo HEAD: out/build.sh (clean), git apply patch.diff, cmake+ctest, out/build.sh (patched)","VERIF_REPO=<worktree> ./check <prop> quick"],
"check_results":res.strip().split(),"caught_by":caught.split()}
json.dump(meta,open('/verif/seeded/%s/meta.json'%id,'w'),indent=1)
PY
