#!/bin/bash
# Re-run every negative control (behaviour-preserving refactoring under /verif/seeded/refactor-*) against all twenty
# quick checks (scratch worktrees of /repo HEAD, never /repo itself) and write /verif/seeded/REFACTOR.md.
# Expected: no VIOLATION anywhere. usage: tools/refactor_matrix.sh [refactor-id ...]
cd /verif
ids="$@"; [ -z "$ids" ] && ids=$(ls seeded | grep -E '^refactor-')
out=/verif/seeded/REFACTOR.md
echo "| refactoring | checks run | checks with a violation |" > $out.tmp
echo "|---|---|---|" >> $out.tmp
for id in $ids; do
  wt=/tmp/rf-$id-$$
  git -C /repo worktree add -q --detach "$wt" HEAD || continue
  if git -C "$wt" apply /verif/seeded/$id/patch.diff; then
    res=$(tools/run_refactor.sh $wt)
    bad=$(echo "$res" | grep -v "rc=0 0 violations" | awk '{print $1}' | tr '\n' ' ')
    echo "| $id | $(echo "$res" | wc -l) | ${bad:-none} |" >> $out.tmp
    echo "$id: ${bad:-clean}"
  else
    echo "| $id | patch does not apply | - |" >> $out.tmp
  fi
  git -C /repo worktree remove --force "$wt"
  rm -rf /tmp/mutout/ref-$(basename $wt)
done
if [ $# -eq 0 ]; then mv $out.tmp $out; else cat $out.tmp; rm -f $out.tmp; fi
