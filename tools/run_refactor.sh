#!/bin/bash
# usage: tools/run_refactor.sh <worktree with a behaviour-preserving change applied> [props...]
# Runs the quick checks against that tree; any VIOLATION is either a flaw of the refactoring or a check that demands
# more than its property states - both need triage. Output dir /tmp/mutout/ref-<name>.
wt=$(readlink -f "$1"); shift
props="$@"; [ -z "$props" ] && props="C01 C02 C03 C04 C05 C06 C07 C08 C09 C10 C11 C12 C13 C14 C15 C16 C17 C18 C19 C20"
out=/tmp/mutout/ref-$(basename $wt); rm -rf $out; mkdir -p $out
for p in $props; do
  VERIF_REPO=$wt VERIF_OUT=$out /verif/check $p quick > $out/$p.log 2>&1; rc=$?
  echo "$p rc=$rc $(grep -c '^VIOLATION' $out/$p.log) violations; $(grep -m1 'rule=' $out/$p.log | cut -c1-200)"
done
