#!/bin/bash
# usage: tools/try_mutant.sh <patch.diff> <prop> [more props...]
# Applies the patch to a scratch worktree of /repo (never to /repo itself), runs the quick checks of the
# given properties against it, and removes the worktree. Evidence/replays go to /tmp/mutout/<name>.
set -u
patch=$(readlink -f "$1"); shift
name=$(basename "$(dirname "$patch")")-$$
wt=/tmp/mutwt-$name
git -C /repo worktree add -q --detach "$wt" HEAD || exit 2
if ! git -C "$wt" apply "$patch"; then echo "patch does not apply"; git -C /repo worktree remove --force "$wt"; exit 2; fi
out=/tmp/mutout/$name; mkdir -p "$out"
rc=0
for p in "$@"; do
  VERIF_REPO=$wt VERIF_OUT=$out /verif/check "$p" quick 2>&1 | grep -E "VIOLATION|rule=|HARNESS|quick:|KNOWN" | cut -c1-400
done
git -C /repo worktree remove --force "$wt"
