#!/usr/bin/env python3
"""Sensitivity self-test: hand-written one-line mutants of src/cat.c (the lists of DESIGN.md section 5 of the
original design). Each is applied to a scratch worktree of /repo HEAD (never /repo), the 30 tests are run, and
the quick check of the property it targets is run against it.  usage: tools/selftest.py [mutant-id ...]
Writes /verif/seeded/SELFTEST.md."""
import os, subprocess, sys, shutil

M = [
 # id, property, description, old, new
 ("m-c02-lane", "C02", "match-state lane shift wrong for i%4==3",
  "        s >>= (i % 4) << 1;\n        s &= 0x03;\n\n        return s;", "        s >>= ((i % 4) == 3 ? 4 : (i % 4) << 1);\n        s &= 0x03;\n\n        return s;"),
 ("m-c02-upper", "C02", "to_upper stops below 'z'",
  "return (ch >= 'a' && ch <= 'z') ? ch - ('a' - 'A') : ch;", "return (ch >= 'a' && ch < 'z') ? ch - ('a' - 'A') : ch;"),
 ("m-c02-name-index", "C02", "update_command compares name[length] instead of name[length-1]",
  "to_upper(cmd->name[self->length - 1]) != self->current_char", "to_upper(cmd->name[self->length]) != self->current_char"),
 ("m-c03-args-bound", "C03", "parse_command_args stores at length == capacity",
  "                if (self->length >= get_atcmd_buf_size(self)) {\n                        self->state = CAT_STATE_ERROR;", "                if (self->length > get_atcmd_buf_size(self)) {\n                        self->state = CAT_STATE_ERROR;"),
 ("m-c03-print-bound", "C03", "print_nstring_to_buf accepts len == left space",
  "        if (len >= get_left_buffer_space_by_fsm(self, fsm))\n                return -1;", "        if (len > get_left_buffer_space_by_fsm(self, fsm))\n                return -1;"),
 ("m-c03-unsol-offset", "C03", "unsolicited half starts one byte early",
  "(char*)&self->desc->buf[self->desc->buf_size >> 1];", "(char*)&self->desc->buf[(self->desc->buf_size >> 1) - 1];"),
 ("m-c04-int8max", "C04", "INT8 upper bound off by one",
  "if ((val < INT8_MIN) || (val > INT8_MAX))", "if ((val < INT8_MIN) || (val > INT8_MAX + 1))"),
 ("m-c04-uint16", "C04", "UINT16 range check dropped",
  "                if (val > UINT16_MAX)\n                        return -1;\n", ""),
 ("m-c05-odd-nibbles", "C05", "hex buffer accepts an odd number of digits",
  "if ((size > 0) && (state == 0) && ((ch == 0) || (ch == ',')))", "if ((size > 0) && ((ch == 0) || (ch == ',')))"),
 ("m-c05-wsize", "C05", "hex buffer reports write_size+1",
  "                                self->write_size = size;\n                        }\n                        return (ch == ',') ? 1 : 0;\n                }\n\n                if (is_valid_hex_char(ch) == 0)", "                                self->write_size = size + 1;\n                        }\n                        return (ch == ',') ? 1 : 0;\n                }\n\n                if (is_valid_hex_char(ch) == 0)"),
 ("m-c06-length", "C06", "write handler gets length-1",
  "self->cmd->write(self->cmd, (uint8_t*)get_atcmd_buf(self), self->length, self->index)", "self->cmd->write(self->cmd, (uint8_t*)get_atcmd_buf(self), self->length ? self->length - 1 : 0, self->index)"),
 ("m-c06-maxsize", "C06", "read handler gets the whole buffer size as capacity",
  "return cmd->read(cmd, (uint8_t*)get_atcmd_buf(self), &self->position, get_atcmd_buf_size(self));", "return cmd->read(cmd, (uint8_t*)get_atcmd_buf(self), &self->position, self->desc->buf_size);"),
 ("m-c08-wo-int", "C08", "write-only masking removed for signed decimal",
  "        if (var->access == CAT_VAR_ACCESS_WRITE_ONLY)\n                val = 0;\n\n        if (print_format_num(self, \"%d\", val, fsm) != 0)", "        if (print_format_num(self, \"%d\", val, fsm) != 0)"),
 ("m-c08-ro-uint", "C08", "read-only check removed in validate_uint_range",
  "static int validate_uint_range(struct cat_object *self, uint64_t val)\n{\n        if (self->var->access == CAT_VAR_ACCESS_READ_ONLY) {\n                self->write_size = 0;\n                return 0;\n        }\n", "static int validate_uint_range(struct cat_object *self, uint64_t val)\n{\n"),
 ("m-c09-group", "C09", "group disable flag ignored",
  "                if (cmd_group->disable != false)\n                        return true;\n\n", ""),
 ("m-c09-onlytest", "C09", "only_test check removed for WRITE",
  "        case '\\n':\n                if (self->cmd->only_test != false) {\n                        ack_error(self);\n                        break;\n                }\n                if (is_variables_access_possible", "        case '\\n':\n                if (is_variables_access_possible"),
 ("m-c10-next-emits", "C10", "NEXT from a read handler emits the buffer",
  "        case CAT_RETURN_STATE_NEXT:\n                start_processing_format_read_args(self, fsm);\n                break;", "        case CAT_RETURN_STATE_NEXT:\n                switch (fsm) {\n                case CAT_FSM_TYPE_ATCMD:\n                        start_flush_io_buffer(self, CAT_STATE_AFTER_FLUSH_FORMAT_READ_ARGS);\n                        break;\n                default:\n                        start_processing_format_read_args(self, fsm);\n                        break;\n                }\n                break;"),
 ("m-c10-varread", "C10", "var->read failure ignored",
  "        if ((var->read != NULL) && (var->read(var) != 0)) {\n                end_processing_with_error(self, fsm);\n                return CAT_STATUS_BUSY;\n        }", "        if (var->read != NULL)\n                (void)var->read(var);"),
 ("m-c10-noreformat", "C10", "DATA_NEXT re-invokes the read handler without re-formatting",
  "        case CAT_STATE_AFTER_FLUSH_FORMAT_READ_ARGS:\n                start_processing_format_read_args(self, CAT_FSM_TYPE_ATCMD);\n                s = CAT_STATUS_BUSY;", "        case CAT_STATE_AFTER_FLUSH_FORMAT_READ_ARGS:\n                self->state = CAT_STATE_READ_LOOP;\n                s = CAT_STATUS_BUSY;"),
 ("m-c11-handshake-cmd", "C11", "command flusher does not wait for the event flusher",
  "        if (self->unsolicited_fsm.state != CAT_UNSOLICITED_STATE_FLUSH_IO_WRITE)\n                self->state = CAT_STATE_FLUSH_IO_WRITE;", "        self->state = CAT_STATE_FLUSH_IO_WRITE;"),
 ("m-c11-handshake-ev", "C11", "event flusher does not wait for the command flusher",
  "        if (self->state != CAT_STATE_FLUSH_IO_WRITE)\n                self->unsolicited_fsm.state = CAT_UNSOLICITED_STATE_FLUSH_IO_WRITE;", "        self->unsolicited_fsm.state = CAT_UNSOLICITED_STATE_FLUSH_IO_WRITE;"),
 ("m-c12-position", "C12", "position advanced before the write result is known",
  "        if (self->io->write(ch) != 1)\n                return CAT_STATUS_BUSY;\n\n        self->position++;\n        return CAT_STATUS_BUSY;", "        self->position++;\n        if (self->io->write(ch) != 1)\n                return CAT_STATUS_BUSY;\n\n        return CAT_STATUS_BUSY;"),
 ("m-c12-negative", "C12", "negative write results count as accepted",
  "        if (self->io->write(ch) != 1)\n                return CAT_STATUS_BUSY;\n\n        self->unsolicited_fsm.position++;", "        if (self->io->write(ch) == 0)\n                return CAT_STATUS_BUSY;\n\n        self->unsolicited_fsm.position++;"),
 ("m-c12-crflag", "C12", "cr_flag set even when no byte was read (stale current_char)",
  "static cat_status parse_command_args(struct cat_object *self)\n{\n        assert(self != NULL);\n\n        if (read_cmd_char(self) == 0)\n                return CAT_STATUS_OK;", "static cat_status parse_command_args(struct cat_object *self)\n{\n        assert(self != NULL);\n\n        if (read_cmd_char(self) == 0) {\n                if (self->length > 0)\n                        self->length--;\n                return CAT_STATUS_OK;\n        }"),
 ("m-c13-wrap", "C13", "head wraps one slot late",
  "        if (++self->unsolicited_fsm.unsolicited_cmd_buffer_head >= CAT_UNSOLICITED_CMD_BUFFER_SIZE)\n                self->unsolicited_fsm.unsolicited_cmd_buffer_head = 0;\n\n        self->unsolicited_fsm.unsolicited_cmd_buffer_items_count--;", "        if (++self->unsolicited_fsm.unsolicited_cmd_buffer_head > CAT_UNSOLICITED_CMD_BUFFER_SIZE)\n                self->unsolicited_fsm.unsolicited_cmd_buffer_head = 0;\n\n        self->unsolicited_fsm.unsolicited_cmd_buffer_items_count--;"),
 ("m-c13-full", "C13", "buffer reported full one item early",
  "(self->unsolicited_fsm.unsolicited_cmd_buffer_items_count == CAT_UNSOLICITED_CMD_BUFFER_SIZE) ? true : false;", "(self->unsolicited_fsm.unsolicited_cmd_buffer_items_count + 1 >= CAT_UNSOLICITED_CMD_BUFFER_SIZE && CAT_UNSOLICITED_CMD_BUFFER_SIZE > 2) ? true : (self->unsolicited_fsm.unsolicited_cmd_buffer_items_count == CAT_UNSOLICITED_CMD_BUFFER_SIZE);"),
 ("m-c13-type", "C13", "event type ignored by cat_is_unsolicited_event_buffered for queued items",
  "                if ((item->cmd == cmd) && ((type == CAT_CMD_TYPE_NONE) || (item->type == type)))", "                if (item->cmd == cmd)"),
 ("m-c14-stale", "C14", "enable_hold_state keeps a stale exit status",
  "        self->hold_state_flag = true;\n        self->hold_exit_status = 0;", "        self->hold_state_flag = true;"),
 ("m-c14-noflag", "C14", "hold_exit records the status even outside a hold",
  "        if (self->hold_state_flag == false) {\n                s = CAT_STATUS_ERROR_NOT_HOLD;\n        } else {", "        if (self->hold_state_flag == false) {\n                self->hold_exit_status = (status == CAT_STATUS_OK) ? 1 : -1;\n                s = CAT_STATUS_ERROR_NOT_HOLD;\n        } else {"),
 ("m-c14-reads", "C14", "held parser keeps consuming input",
  "        if (self->hold_exit_status == 0)\n                return CAT_STATUS_BUSY;", "        if (self->hold_exit_status == 0) {\n                (void)read_cmd_char(self);\n                return CAT_STATUS_BUSY;\n        }"),
 ("m-c15-reset-ok", "C15", "AFTER_FLUSH_RESET reports OK",
  "        case CAT_STATE_AFTER_FLUSH_RESET:\n                reset_state(self);\n                s = CAT_STATUS_BUSY;", "        case CAT_STATE_AFTER_FLUSH_RESET:\n                reset_state(self);\n                s = CAT_STATUS_OK;"),
 ("m-c15-unsol-ignored", "C15", "busy event machine not folded into the status",
  "        if ((unsolicited_stat != CAT_STATUS_OK) || (is_unsolicited_fsm_busy(self) != false) || (is_unsolicited_buffer_empty(self) == false)) {", "        if ((unsolicited_stat != CAT_STATUS_OK) || (is_unsolicited_buffer_empty(self) == false)) {"),
 ("m-c16-early-return", "C16", "cat_is_unsolicited_buffer_full returns without unlocking when full",
  "        s = is_unsolicited_buffer_full(self);\n\n        if ((self->mutex != NULL) && (self->mutex->unlock() != 0))", "        s = is_unsolicited_buffer_full(self);\n        if (s != false)\n                return CAT_STATUS_ERROR_BUFFER_FULL;\n\n        if ((self->mutex != NULL) && (self->mutex->unlock() != 0))"),
 ("m-c16-nolock-holdexit", "C16", "cat_hold_exit does not lock",
  "        if ((self->mutex != NULL) && (self->mutex->lock() != 0))\n                return CAT_STATUS_ERROR_MUTEX_LOCK;\n\n        s = hold_exit(self, status);\n\n        if ((self->mutex != NULL) && (self->mutex->unlock() != 0))\n                return CAT_STATUS_ERROR_MUTEX_UNLOCK;", "        s = hold_exit(self, status);"),
 ("m-c17-nolock-trigger", "C17", "cat_trigger_unsolicited_event does not lock",
  "        if ((self->mutex != NULL) && (self->mutex->lock() != 0))\n                return CAT_STATUS_ERROR_MUTEX_LOCK;\n\n        s = push_unsolicited_cmd(self, cmd, type);\n\n        if ((self->mutex != NULL) && (self->mutex->unlock() != 0))\n                return CAT_STATUS_ERROR_MUTEX_UNLOCK;", "        s = push_unsolicited_cmd(self, cmd, type);"),
 ("m-c18-flush-only", "C18", "is_busy only while flushing",
  "return ((self->state != CAT_STATE_IDLE) || (self->unsolicited_fsm.state != CAT_UNSOLICITED_STATE_IDLE)) ? CAT_STATUS_BUSY : CAT_STATUS_OK;", "return ((self->state == CAT_STATE_FLUSH_IO_WRITE) || (self->state == CAT_STATE_FLUSH_IO_WRITE_WAIT) || (self->unsolicited_fsm.state != CAT_UNSOLICITED_STATE_IDLE)) ? CAT_STATUS_BUSY : CAT_STATUS_OK;"),
 ("m-c18-ishold-state", "C18", "is_hold derived from the FSM state",
  "return (self->hold_state_flag != false) ? CAT_STATUS_HOLD : CAT_STATUS_OK;", "return (self->state == CAT_STATE_HOLD) ? CAT_STATUS_HOLD : CAT_STATUS_OK;"),
 ("m-c19-rowo", "C19", "RO and WO swapped in the TEST text",
  "                strcpy(accessor, \"RO\");\n                break;\n        case CAT_VAR_ACCESS_WRITE_ONLY:\n                strcpy(accessor, \"WO\");", "                strcpy(accessor, \"WO\");\n                break;\n        case CAT_VAR_ACCESS_WRITE_ONLY:\n                strcpy(accessor, \"RO\");"),
 ("m-c19-list-read-wo", "C19", "READ form listed for write-only variables",
  "if ((self->cmd->read != NULL) || (is_variables_access_possible(self, self->cmd, CAT_VAR_ACCESS_READ_ONLY) != false)) {\n                        self->position = 0;", "if ((self->cmd->read != NULL) || (self->cmd->var != NULL)) {\n                        self->position = 0;"),
 ("m-c20-crflag", "C20", "cr_flag not cleared between lines",
  "                self->state = CAT_STATE_IDLE;\n                self->cr_flag = false;", "                self->state = CAT_STATE_IDLE;"),
 ("m-c20-implicit", "C20", "implicit_write_flag not cleared after use",
  "                        self->state = CAT_STATE_SEARCH_COMMAND;\n                        self->implicit_write_flag = false;", "                        self->state = CAT_STATE_SEARCH_COMMAND;"),
 ("m-c20-length", "C20", "argument length not reset when a command is found",
  "        case CAT_CMD_TYPE_WRITE:\n                self->length = 0;\n                get_atcmd_buf(self)[0] = 0;", "        case CAT_CMD_TYPE_WRITE:\n                get_atcmd_buf(self)[0] = 0;"),
 ("m-c01-prefix", "C01", "bad prefix acknowledged without draining the line",
  "        default:\n                self->state = CAT_STATE_ERROR;\n                break;\n        }\n\n        return CAT_STATUS_BUSY;\n}\n\nstatic void prepare_search_command", "        default:\n                ack_error(self);\n                break;\n        }\n\n        return CAT_STATUS_BUSY;\n}\n\nstatic void prepare_search_command"),
 ("m-c07-hexsign", "C07", "hex buffer byte formatted from a signed char",
  "                        val = buf[i];\n                }\n\n                if (print_format_num(self, \"%02X\", val, fsm) != 0)", "                        val = buf[i];\n                }\n\n                if (print_format_num(self, \"%02X\", (uint32_t)(int32_t)(int8_t)val, fsm) != 0)"),
 ("m-c07-escape", "C07", "double quote not escaped when formatting a string",
  "                } else if (ch == '\"') {\n                        if (print_string_to_buf(self, \"\\\\\\\"\", fsm) != 0)\n                                return -1;", "                } else if (ch == '\"') {\n                        if (print_string_to_buf(self, \"\\\"\", fsm) != 0)\n                                return -1;"),
 # integer-width narrowing ("save RAM on a small MCU"); last element: file the pattern is in
 ("m-w-index8", "C02", "cat_object.index narrowed to uint8_t (tables beyond 255 commands)",
  "        size_t index; /* index used to iterate over commands and variables */\n        size_t partial_cntr;", "        uint8_t index; /* index used to iterate over commands and variables */\n        size_t partial_cntr;", "src/cat.h"),
 ("m-w-length8", "C06", "cat_object.length narrowed to uint8_t (arguments beyond 255 bytes)",
  "        size_t length; /* length of input command name and command arguments */", "        uint8_t length; /* length of input command name and command arguments */", "src/cat.h"),
 ("m-w-cmdnum8", "C02", "cat_object.commands_num narrowed to uint8_t",
  "        size_t commands_num; /* computed total number of registered commands */", "        uint8_t commands_num; /* computed total number of registered commands */", "src/cat.h"),
 ("m-w-bufsize16", "C06", "get_atcmd_buf_size returns uint16_t (buffers beyond 64 KiB)",
  "static inline size_t get_atcmd_buf_size(struct cat_object *self)", "static inline uint16_t get_atcmd_buf_size(struct cat_object *self)"),
 ("m-w-left8", "C19", "get_left_buffer_space_by_fsm returns uint8_t (responses beyond 255 bytes)",
  "static size_t get_left_buffer_space_by_fsm(struct cat_object *self, cat_fsm_type fsm)", "static uint8_t get_left_buffer_space_by_fsm(struct cat_object *self, cat_fsm_type fsm)"),
 ("m-w-items8", "C13", "event ring items_count narrowed to uint8_t (equivalent: capacity <= 8)",
  "        size_t unsolicited_cmd_buffer_items_count; /* number of unsolicited cmd in buffer */", "        uint8_t unsolicited_cmd_buffer_items_count; /* number of unsolicited cmd in buffer */", "src/cat.h"),
]


def sh(cmd, cwd=None, env=None):
    return subprocess.run(cmd, shell=True, cwd=cwd, env=env, capture_output=True, text=True, errors="replace")


def main():
    want = set(sys.argv[1:])
    rows = []
    for ent in M:
        mid, prop, desc, old, new = ent[:5]
        relpath = ent[5] if len(ent) > 5 else "src/cat.c"
        if want and mid not in want:
            continue
        wt = "/tmp/st-%s-%d" % (mid, os.getpid())
        if sh("git -C /repo worktree add -q --detach %s HEAD" % wt).returncode != 0:
            rows.append((mid, prop, desc, "worktree failed", "-", "-"))
            continue
        try:
            path = os.path.join(wt, relpath)
            src = open(path).read()
            if src.count(old) != 1:
                rows.append((mid, prop, desc, "pattern matches %d times" % src.count(old), "-", "-"))
                continue
            open(path, "w").write(src.replace(old, new))
            b = sh("cmake -G Ninja -S . -B _b >/dev/null 2>&1 && cmake --build _b 2>&1 | tail -3", cwd=wt)
            if "error" in b.stdout.lower() or not os.path.exists(os.path.join(wt, "_b/bin/test_parse")):
                rows.append((mid, prop, desc, "does not compile", "-", "-"))
                print(mid, "does not compile", b.stdout[-300:])
                continue
            t = sh("ctest --test-dir _b -j8 2>&1 | grep -E 'tests passed|tests failed'", cwd=wt)
            tests = t.stdout.strip()
            out = "/tmp/mutout/st-%s" % mid
            shutil.rmtree(out, ignore_errors=True)
            os.makedirs(out)
            env = dict(os.environ, VERIF_REPO=wt, VERIF_OUT=out)
            c = sh("/verif/check %s quick" % prop, env=env)
            nv = c.stdout.count("VIOLATION property=%s " % prop)
            rule = ""
            for line in c.stdout.splitlines():
                if line.strip().startswith("rule="):
                    rule = line.strip().split()[0][5:]
                    break
            rows.append((mid, prop, desc, tests, "caught" if c.returncode == 1 else "NOT CAUGHT (exit %d)" % c.returncode, rule))
            print(mid, prop, tests, "rc=%d" % c.returncode, "violations=%d" % nv, rule, flush=True)
        finally:
            sh("git -C /repo worktree remove --force %s" % wt)
            shutil.rmtree(wt, ignore_errors=True)
    if not want:
        with open("/verif/seeded/SELFTEST.md", "w") as f:
            f.write("| mutant | property | what | existing tests | quick check of that property | first rule |\n|---|---|---|---|---|---|\n")
            for r in rows:
                f.write("| %s | %s | %s | %s | %s | %s |\n" % r)


if __name__ == "__main__":
    main()
