// Reference model: pure, line-granular functions over (plan, flags, variable values).
// It has no incremental parser, no buffers, no flush engine and no packed match bits; it
// predicts, for one complete input line or one accepted event, the sequence of observable
// items (handler calls with arguments, variable callbacks, output units) and the new
// variable values. Every expected item carries the id of the property whose statement
// justifies the expectation ("tag"); tag "U" marks behaviour no property specifies.
#pragma once
#include "plan.h"

struct Item {
        enum Kind { H, V, U, HOLDWAIT } kind = U;
        const char *tag = "U";
        const char *rule = "";
        int cmd = -1;
        // H
        int hkind = 0;
        int fsm = FSM_CMD;
        bytes data;       // expected bytes handed to the handler
        int args_num = 0; // write handler
        int maxsize = 0;  // read/test handler
        int ret = 0;      // what the script will return (informational)
        int step = -1;    // index of the script step this invocation executes (-1: default step after the script's end)
        int release = 0;  // consumed H of an event handler requests hold release: 1 ok, -1 error
        bool enters_hold = false;
        // V
        int var = -1;
        int vkind = 0; // 0 var->read, 1 var->write
        int wsize = 0;
        // U
        std::vector<bytes> alts; // acceptable byte strings; with flex every '\n' may be "\r\n"
        bool flex = false;
        bool is_result = false; // OK / ERROR result code of a line
};

struct ModelState {
        const Plan *plan = nullptr;
        std::vector<std::vector<bytes>> vals;  // [cmd][var]
        std::vector<std::vector<char>> havoc;  // value unknown after a failed buffer/string decode
        std::vector<char> cmd_dis, grp_dis;

        void init(const Plan &p);
        bool disabled(int cmd) const;
};

// --- pure helpers (exported for twin drivers / generators) ---
bool fmt_var(const VarSpec &v, const bytes &val, std::string &out);  // READ text of one variable; false: unsupported
bool fmt_info(const VarSpec &v, std::string &out);                   // TEST token of one variable
// returns -1 error, 0 ended at end of text, 1 ended at ','; on success sets store/newval/wsize
struct ParseOut {
        bool store = false;
        bytes newval;
        int wsize = 0;
        bool partial = false; // failed after possibly modifying the variable (buffer/string)
        bool unspecified = false; // verdict not fixed by any property (e.g. read-only position beyond 64 bits)
};
int parse_var(const VarSpec &v, const bytes &cur, const bytes &args, size_t &pos, ParseOut &out);
// name resolution over the enabled registered commands: >=0 command, -1 none, -2 ambiguous
int resolve_name(const ModelState &m, const std::string &typed_upper, bool ignore_disable = false);

struct LineInfo {
        bool blank = false;
        bool crlf = false;
        int cmd = -1;
        int type = CT_NONE;
        bytes args;
        const char *verdict_tag = "C01";
};

// simulate one complete line (without its LF); mutates m (stores, bumps); returns expected items
std::vector<Item> simulate_line(ModelState &m, const bytes &line, LineInfo *info = nullptr);
// simulate one event processing
std::vector<Item> simulate_event(ModelState &m, int cmd, int type);
// text of the automatic responses (used by generators to size buffers)
std::string model_read_text(const ModelState &m, int cmd);
std::string model_test_text(const Plan &p, int cmd, const char *nl);
