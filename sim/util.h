// Small utilities shared by the whole simulator: PRNG, hashing, hex text.
// Nothing here may read a clock, an address or any other source of nondeterminism.
#pragma once
#include <cstdint>
#include <cstdio>
#include <cstring>
#include <string>
#include <vector>

typedef std::string bytes; // byte strings (may contain NUL)

static inline uint64_t splitmix64(uint64_t &x)
{
        uint64_t z = (x += 0x9E3779B97F4A7C15ULL);
        z = (z ^ (z >> 30)) * 0xBF58476D1CE4E5B9ULL;
        z = (z ^ (z >> 27)) * 0x94D049BB133111EBULL;
        return z ^ (z >> 31);
}

struct Rng {
        uint64_t s[4];
        explicit Rng(uint64_t seed = 1) { reseed(seed); }
        void reseed(uint64_t seed)
        {
                uint64_t x = seed;
                for (int i = 0; i < 4; i++)
                        s[i] = splitmix64(x);
        }
        static inline uint64_t rotl(uint64_t x, int k) { return (x << k) | (x >> (64 - k)); }
        uint64_t next()
        {
                uint64_t r = rotl(s[1] * 5, 7) * 9, t = s[1] << 17;
                s[2] ^= s[0];
                s[3] ^= s[1];
                s[1] ^= s[2];
                s[0] ^= s[3];
                s[2] ^= t;
                s[3] = rotl(s[3], 45);
                return r;
        }
        // uniform in [0,n)
        uint64_t below(uint64_t n) { return n ? next() % n : 0; }
        // uniform in [lo,hi]
        int64_t range(int64_t lo, int64_t hi) { return lo + (int64_t)below((uint64_t)(hi - lo + 1)); }
        bool chance(double p) { return (double)(next() >> 11) * (1.0 / 9007199254740992.0) < p; }
        bool coin() { return next() & 1; }
        template <class T> const T &pick(const std::vector<T> &v) { return v[below(v.size())]; }
};

static inline uint64_t mix_seed(uint64_t a, uint64_t b)
{
        uint64_t x = a ^ (b * 0xD6E8FEB86659FD93ULL + 0x2545F4914F6CDD1DULL);
        return splitmix64(x);
}

struct Hash64 {
        uint64_t h = 0xcbf29ce484222325ULL;
        void add(const void *p, size_t n)
        {
                const unsigned char *c = (const unsigned char *)p;
                for (size_t i = 0; i < n; i++) {
                        h ^= c[i];
                        h *= 0x100000001b3ULL;
                }
        }
        void add(uint64_t v) { add(&v, sizeof v); }
        void add(const std::string &s)
        {
                add((uint64_t)s.size());
                add(s.data(), s.size());
        }
};

static inline std::string hexenc(const bytes &b)
{
        static const char *d = "0123456789abcdef";
        std::string r;
        if (b.empty())
                return "-";
        for (unsigned char c : b) {
                r += d[c >> 4];
                r += d[c & 15];
        }
        return r;
}

static inline bool hexdec(const std::string &s, bytes &out)
{
        out.clear();
        if (s == "-")
                return true;
        if (s.size() % 2)
                return false;
        auto v = [](char c) -> int {
                if (c >= '0' && c <= '9')
                        return c - '0';
                if (c >= 'a' && c <= 'f')
                        return c - 'a' + 10;
                if (c >= 'A' && c <= 'F')
                        return c - 'A' + 10;
                return -1;
        };
        for (size_t i = 0; i < s.size(); i += 2) {
                int a = v(s[i]), b = v(s[i + 1]);
                if (a < 0 || b < 0)
                        return false;
                out += (char)(a * 16 + b);
        }
        return true;
}

// printable rendering for messages and evidence samples (never parsed back)
static inline std::string vis(const bytes &b, size_t max = 96)
{
        std::string r;
        for (size_t i = 0; i < b.size() && i < max; i++) {
                unsigned char c = b[i];
                if (c == '\n')
                        r += "\\n";
                else if (c == '\r')
                        r += "\\r";
                else if (c == '\\')
                        r += "\\\\";
                else if (c == '"')
                        r += "\\\"";
                else if (c < 32 || c >= 127) {
                        char t[8];
                        snprintf(t, sizeof t, "\\x%02x", c);
                        r += t;
                } else
                        r += (char)c;
        }
        if (b.size() > max)
                r += "...(" + std::to_string(b.size()) + ")";
        return r;
}

static inline std::string json_escape(const std::string &s)
{
        std::string r;
        for (unsigned char c : s) {
                if (c == '"')
                        r += "\\\"";
                else if (c == '\\')
                        r += "\\\\";
                else if (c < 32 || c >= 127) {
                        char t[8];
                        snprintf(t, sizeof t, "\\u%04x", c);
                        r += t;
                } else
                        r += (char)c;
        }
        return r;
}

static inline char up(char c) { return (c >= 'a' && c <= 'z') ? (char)(c - 32) : c; }
static inline std::string upper(const std::string &s)
{
        std::string r = s;
        for (auto &c : r)
                c = up(c);
        return r;
}
