// Engine: executes a plan against the real cat.c. Only engine.cc / peek.cc include cat.h.
#pragma once
#include "monitor.h"
#include <set>

struct RunOpts {
        bool monitor = true;    // model-based monitor active
        bool eager = false;     // ignore rx/tx fault ops (twin runs: the eager schedule)
        bool lockset = false;   // page-protection lockset (mutex plans, plain build only)
        bool keep_output = true;
        long max_svc = 200000;  // hard bound on service calls per run
        bool coverage = true;
        bool liveness = true;   // check the linear step bound in the final drain
        std::string focus;       // property under check: findings of other properties that leave the model in sync are only noted
        bool keep_going = false; // execute the whole plan even after a violation (twin runs compare complete outputs)
        std::vector<bytes> override_init; // C08 twin: replacement initial contents, flattened (cmd,var) order; empty = plan's
};

struct EngStats {
        uint64_t svc_calls = 0, svc_ok = 0, probes = 0;
        uint64_t rx_bytes = 0, tx_bytes = 0;
        uint64_t f_read_refused = 0, f_read_scribble = 0, f_write_refused = 0, f_write_refused_neg = 0;
        uint64_t f_lock_fail = 0, f_unlock_fail = 0, f_varcb_fail = 0, f_handler_err = 0, f_handler_invalid = 0;
        uint64_t f_queue_full = 0, f_flag_flip = 0, f_flag_skipped = 0, f_spurious_api = 0, f_setvar = 0;
        uint64_t f_write_refused_first = 0, f_write_refused_last = 0;
        uint64_t ops = 0, drains = 0, drain_calls_max = 0;
        uint64_t lock_calls = 0, unlock_calls = 0, lockset_switches = 0;
        uint64_t ring_pushes = 0;
        uint64_t thread_switches = 0, blocked_on_mutex = 0;
        uint64_t iso_checks = 0;
        uint64_t roundtrip_skipped = 0;
        bool overrun = false;
        bool peek_stub = false;
};

struct RunResult {
        Violation viol;     // first violation (empty prop = none)
        Violation soft_other; // first noted finding of another property (focus mode)
        MonStats mon;
        EngStats eng;
        uint64_t hash = 0;  // hash of the full event log
        uint64_t sched_fp = 0;
        bytes out;          // accepted output bytes
        bytes cmd_units, ev_units, cmd_handlers, ev_handlers;
        std::vector<bytes> final_vars; // flattened (cmd,var)
        std::vector<int> line_status;  // unused placeholder for twin drivers
        bool desync = false;
        bool quiescent_end = false;
};

// joint abstract states / transitions seen by this process (coverage only, never an oracle)
extern std::set<uint32_t> g_states;
extern std::set<uint64_t> g_transitions;

RunResult run_plan(const Plan &p, const RunOpts &o);
int engine_qcap(); // CAT_UNSOLICITED_CMD_BUFFER_SIZE this binary was built with
bool engine_asan();
