// Online monitor: consumes the observations of one run (reads, writes, callbacks, API
// results) and checks them against the reference model. Black box: it never looks inside
// struct cat_object. The first violation ends monitoring of the run.
#pragma once
#include "model.h"
#include <deque>

struct Violation {
        std::string prop, rule, detail;
        uint64_t at_svc = 0;
        bool set() const { return !prop.empty(); }
};

struct MemView {
        virtual bytes var_bytes(int cmd, int var) = 0;
        virtual ~MemView() {}
};

struct MonStats {
        uint64_t lines = 0, blank_lines = 0, lines_ok = 0, lines_error = 0;
        uint64_t handler_calls = 0, var_callbacks = 0, units = 0, result_codes = 0, list_lines = 0;
        uint64_t events_accepted = 0, events_rejected = 0, events_silent = 0, events_finished = 0;
        uint64_t trig_must_accept = 0, trig_must_reject = 0, trig_either = 0;
        uint64_t holds = 0, releases_api = 0, releases_handler = 0, spurious_releases = 0;
        uint64_t busy_samples = 0, busy_ok_samples = 0, hold_samples = 0, buffered_samples = 0, buffered_must = 0;
        uint64_t unspecified_desync = 0;
        uint64_t var_compares = 0;
        uint64_t ev_unit_between_list_lines = 0, ev_unit_during_hold = 0, both_want_output = 0;
        uint64_t reads_refused = 0, writes_refused = 0;
        uint64_t args_at_cap_m1 = 0, args_at_cap = 0, long_numbers = 0, ambiguous_eq = 0;
        uint64_t tags[21] = {0}; // lines by verdict tag C01..C20
};

class Monitor {
      public:
        Monitor(const Plan &p, MemView *mem);

        // --- observations
        void on_read(bool ok, unsigned char byte);
        void on_write(unsigned char byte, bool accepted);
        void on_handler(int cmd, int kind, int fsm, const bytes &data, size_t size, size_t extra);
        int matched_step = -2; // set by on_handler: script step of the matched expectation (-1 default step, -2 no match)
        void on_varcb(int cmd, int var, int vkind, size_t wsize);
        void on_handler_done(int fsm, const bytes &buffer_after); // read/test handlers: buffer content after the handler returned
        void on_service_begin();
        void on_service_end(int status);
        void on_trigger(int cmd, int type, int status, int full_before);
        void on_hexit(int status_arg, int result);
        void on_busy(int r);
        void on_hold_query(int r);
        void on_buffered(int cmd, int type, int r);
        void on_processed(int fsm, int cmd); // cmd: -1 NULL, -2 not a known command
        bool config_idle() const;            // true when flags / variables may be changed (between lines)
        void on_flag(int kind, int idx, int val);
        void on_setvar(int cmd, int var, const bytes &val);
        void on_fresh();
        void finish(bool drained);
        void flush_deferred(); // premature-OK verdict, decided at the end of the run
        std::string deferred_ok;

        // --- state for the engine
        bool model_ok() const { return !desync && !off; }
        bool held() const { return hold_phase != 0; }
        bool held_unreleased() const { return hold_phase == 1; }
        bool line_pending() const { return !cmdq.empty(); }
        bool events_pending() const { return !evq.empty(); }
        bool unit_open() const { return !cands.empty(); }
        // event machine certainly idle: cat_service reported OK and no event was accepted since
        bool ev_idle() const { return evq.empty() && evs.empty() && ev_quiet; }
        bool ev_quiet = true;
        bool quiet() const { return cmdq.empty() && evq.empty() && cands.empty() && !partial_line(); }
        bool partial_line() const;
        bool dead() const { return viol.set() || desync || off || stray; }
        bool stray = false; // collecting a unit that nothing pending can explain
        void classify_stray();
        // hard: memory-safety / engine-level findings that do not depend on the model being in sync
        void fail(const std::string &prop, const std::string &rule, const std::string &detail, bool hard = false);
        bool off = false; // model switched off for this run (robustness-only runs)
        // The property the current check is about. A finding of another property that does not desynchronise the
        // model (wrong handler arguments, a wrong answer of a query function) is then only noted (`soft_other`)
        // and the run goes on, so that its consequences for the property under check are still seen.
        std::string focus;
        Violation soft_other;
        bool fail_soft(const std::string &prop, const std::string &rule, const std::string &detail); // true: noted, go on

        Violation viol;
        bool desync = false;
        MonStats st;
        ModelState m;
        uint64_t svc_calls = 0;
        // per-producer traces for twin-run comparisons
        bytes cmd_units, ev_units;   // completed units, each followed by 0x1e; event newlines normalised to LF
        bytes cmd_handlers, ev_handlers; // textual handler/callback trace
        std::string last_line_tag = "C01";

      private:
        struct Cand {
                int prod;
                size_t alt;
                size_t off;
                bool cr;
        };
        struct EvRec {
                int cmd, type;
                int total, remaining;
                uint64_t accept_svc;
        };
        const Plan &plan;
        MemView *mem;
        std::deque<Item> cmdq, evq;
        std::deque<int> evq_owner; // parallel to evq: index into evs (by id)
        std::deque<EvRec> evs;     // accepted, not finished (FIFO)
        uint64_t ev_base = 0;      // id of evs.front()
        std::vector<Cand> cands;
        std::vector<bytes> cand_alts[2];
        bool cand_flex[2] = {false, false};
        bytes cur_line;
        bytes cur_unit;
        // hold: 0 none, 1 held (no release requested), 2 releasing
        int hold_phase = 0;
        bool req_ok = false, req_err = false;
        uint64_t release_svc = 0;
        // event queue occupancy window
        uint64_t accepted = 0, popped_certain = 0, popped_possible = 0;
        int last_finished_ev_cmd = -1;
        int last_finished_ev_type = -2; // -2: nothing can be held by the event machine
        bool in_list = false;
        bool last_svc_ok = false;
        bool stimulus_since_ok = true;
        bool svc_ok_now = false; // the last cat_service call returned OK and nothing has stimulated the parser since

        void consume_cmd_item();
        void consume_ev_item();
        void line_complete();
        void deferred_compares();
        bool want_compare_cmd = false, want_compare_ev = false;
        void compare_vars(bool ev_side);
        void start_cands(unsigned char b);
        std::string head_desc(const std::deque<Item> &q) const;
        void release_request(int status, bool certain);
        const char *ctx_tag(int fsm) const;
};
