// Plan generators: pure functions (profile, seed, run index, queue capacity) -> Plan.
#pragma once
#include "plan.h"

// number of plans in the exhaustive part of a profile (0 = none); indices below it enumerate
uint64_t gen_enum_count(const std::string &prop);
Plan gen_plan(const std::string &prop, uint64_t seed, uint64_t idx, int qcap);
// thorough tier: longer histories, larger tables (set once by the worker from --tier)
extern bool g_gen_thorough;
// fault-free variant of a plan (eager schedule): rx/tx fault ops removed
Plan plan_eager(const Plan &p);
