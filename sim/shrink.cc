#include "shrink.h"
#include <algorithm>

namespace {

struct Shrinker {
        const FailPred &pred;
        int budget, used = 0;
        Shrinker(const FailPred &p, int b) : pred(p), budget(b) {}
        bool test(const Plan &c)
        {
                std::string why;
                if (used >= budget || !plan_valid(c, why))
                        return false;
                used++;
                return pred(c);
        }
};

// remove command i, remapping every reference; ops / script actions that refer to it are dropped
bool remove_cmd(Plan &p, int i)
{
        Plan q = p;
        q.cmds.erase(q.cmds.begin() + i);
        auto remap = [&](int64_t &a) {
                if (a == i)
                        return false;
                if (a > i)
                        a--;
                return true;
        };
        for (auto &c : q.cmds)
                for (int k = 0; k < 4; k++)
                        for (auto &s : c.script[k])
                                if (s.act == A_TRIG) {
                                        int64_t a = s.a;
                                        if (!remap(a))
                                                s.act = A_NONE;
                                        s.a = (int)a;
                                }
        std::vector<Op> ops;
        for (auto o : q.ops) {
                bool keep = true;
                if (o.kind == OP_TRIG || o.kind == OP_QBUF || o.kind == OP_ROUNDTRIP || o.kind == OP_SETVAR || o.kind == OP_TRIGCB || o.kind == OP_PUMP)
                        keep = remap(o.a);
                else if (o.kind == OP_FLAG && o.a == 0)
                        keep = remap(o.b);
                if (keep)
                        ops.push_back(o);
        }
        q.ops = ops;
        p = q;
        return true;
}

} // namespace

Plan shrink_plan(const Plan &orig, const FailPred &pred, int max_reruns, int *reruns_out)
{
        Shrinker S(pred, max_reruns);
        Plan cur = orig;
        bool progress = true;
        // marathon plans (pump ops, giant lines) cost up to a second per re-run
        int64_t heavy = 0;
        for (auto &o : orig.ops)
                heavy += o.kind == OP_PUMP ? o.c * o.d : o.kind == OP_IN ? (int64_t)o.data.size() / 8 : 0;
        if (heavy > 4000)
                S.budget = std::min(S.budget, 120);
        while (progress && S.used < S.budget) {
                progress = false;
                // 1. ddmin over ops
                size_t chunk = std::max<size_t>(1, cur.ops.size() / 2);
                while (chunk >= 1 && S.used < S.budget) {
                        bool removed = false;
                        for (size_t start = 0; start < cur.ops.size() && S.used < S.budget;) {
                                Plan c = cur;
                                size_t end = std::min(cur.ops.size(), start + chunk);
                                c.ops.erase(c.ops.begin() + (long)start, c.ops.begin() + (long)end);
                                if (S.test(c)) {
                                        cur = c;
                                        removed = true;
                                        progress = true;
                                } else
                                        start += chunk;
                        }
                        if (chunk == 1 && !removed)
                                break;
                        if (!removed)
                                chunk /= 2;
                }
                // 2. shorten input data
                for (size_t i = 0; i < cur.ops.size() && S.used < S.budget; i++) {
                        if (cur.ops[i].kind != OP_IN)
                                continue;
                        size_t ch = std::max<size_t>(1, cur.ops[i].data.size() / 2);
                        while (ch >= 1 && S.used < S.budget) {
                                bool removed = false;
                                for (size_t st = 0; st < cur.ops[i].data.size() && S.used < S.budget;) {
                                        Plan c = cur;
                                        c.ops[i].data.erase(st, ch);
                                        if (S.test(c)) {
                                                cur = c;
                                                removed = true;
                                                progress = true;
                                        } else
                                                st += ch;
                                }
                                if (ch == 1 && !removed)
                                        break;
                                if (!removed)
                                        ch /= 2;
                        }
                }
                // 3. simplify counts
                for (size_t i = 0; i < cur.ops.size() && S.used < S.budget; i++) {
                        Op &o = cur.ops[i];
                        if (o.kind == OP_PUMP && o.c > 1) {
                                for (int64_t v : {(int64_t)1, o.c / 16, o.c / 2, o.c - 1}) {
                                        if (v >= o.c || v < 1)
                                                continue;
                                        Plan c = cur;
                                        c.ops[i].c = v;
                                        if (S.test(c)) {
                                                cur = c;
                                                progress = true;
                                                break;
                                        }
                                }
                        }
                        if ((o.kind == OP_SVC || o.kind == OP_RX_STALL || o.kind == OP_TX_REFUSE) && o.a > 1) {
                                for (int64_t v : {(int64_t)1, o.a / 2, o.a - 1}) {
                                        if (v >= o.a || v < 1)
                                                continue;
                                        Plan c = cur;
                                        c.ops[i].a = v;
                                        if (S.test(c)) {
                                                cur = c;
                                                progress = true;
                                                break;
                                        }
                                }
                        }
                }
                // 4. world: drop commands
                for (int i = (int)cur.cmds.size() - 1; i >= 0 && S.used < S.budget; i--) {
                        if (cur.cmds.size() <= 1)
                                break;
                        Plan c = cur;
                        remove_cmd(c, i);
                        // groups must stay non-empty: drop trailing empty groups only via validity check
                        if (S.test(c)) {
                                cur = c;
                                progress = true;
                        }
                }
                // 5. world: simplify commands
                for (size_t i = 0; i < cur.cmds.size() && S.used < S.budget; i++) {
                        for (int k = 0; k < 4; k++) {
                                if (!cur.cmds[i].script[k].empty()) {
                                        Plan c = cur;
                                        c.cmds[i].script[k].clear();
                                        if (S.test(c)) {
                                                cur = c;
                                                progress = true;
                                        }
                                }
                                if (cur.cmds[i].h[k]) {
                                        Plan c = cur;
                                        c.cmds[i].h[k] = false;
                                        c.cmds[i].script[k].clear();
                                        if (S.test(c)) {
                                                cur = c;
                                                progress = true;
                                        }
                                }
                        }
                        while (!cur.cmds[i].vars.empty() && S.used < S.budget) {
                                Plan c = cur;
                                int last = (int)c.cmds[i].vars.size() - 1;
                                c.cmds[i].vars.pop_back();
                                bool ok = true;
                                for (int k = 0; k < 4; k++)
                                        for (auto &s : c.cmds[i].script[k])
                                                if (s.act == A_BUMP && s.a == last)
                                                        s.act = A_NONE;
                                for (auto &o : c.ops)
                                        if (o.kind == OP_SETVAR && o.a == (int64_t)i && o.b == last)
                                                ok = false;
                                if (ok && S.test(c)) {
                                        cur = c;
                                        progress = true;
                                } else
                                        break;
                        }
                        if (cur.cmds[i].has_desc) {
                                Plan c = cur;
                                c.cmds[i].has_desc = false;
                                c.cmds[i].desc.clear();
                                if (S.test(c)) {
                                        cur = c;
                                        progress = true;
                                }
                        }
                        for (int f = 0; f < 4; f++) {
                                Plan c = cur;
                                bool *flag = f == 0 ? &c.cmds[i].need_all : f == 1 ? &c.cmds[i].only_test : f == 2 ? &c.cmds[i].disable : &c.cmds[i].implicit;
                                if (!*flag)
                                        continue;
                                *flag = false;
                                if (S.test(c)) {
                                        cur = c;
                                        progress = true;
                                }
                        }
                }
                // 6. world flags
                if (cur.probe_ok) {
                        Plan c = cur;
                        c.probe_ok = false;
                        if (S.test(c)) {
                                cur = c;
                                progress = true;
                        }
                }
                if (cur.other) {
                        Plan c = cur;
                        c.other = false;
                        if (S.test(c)) {
                                cur = c;
                                progress = true;
                        }
                }
                if (cur.observe) {
                        Plan c = cur;
                        c.observe = false;
                        if (S.test(c)) {
                                cur = c;
                                progress = true;
                        }
                }
                if (cur.mutex && cur.lockfail < 0 && cur.unlockfail < 0) {
                        Plan c = cur;
                        c.mutex = false;
                        if (S.test(c)) {
                                cur = c;
                                progress = true;
                        }
                }
        }
        if (reruns_out)
                *reruns_out = S.used;
        return cur;
}
