// Per-property check of one plan: default = one monitored run; some properties add twin
// runs (metamorphic oracles) or enumerate faults along the plan.
#pragma once
#include "engine.h"

struct Outcome {
        Violation viol;         // violation of the requested property (or any, if prop filter empty)
        Violation other;        // first finding that belongs to another property (reported as a note only)
        RunResult res;          // result of the primary run
        uint64_t runs = 0;      // engine executions performed
        uint64_t twin_pairs = 0;
        uint64_t enum_points = 0; // fault positions enumerated (C16)
        std::vector<std::pair<uint64_t, uint64_t>> variant_hashes; // C16: (which<<32 | k, event-log hash) of every enumerated fault position
        bool has_fail_plan = false;
        Plan fail_plan;           // plan to store as replay when the violation was found in a derived variant
};

bool prop_matches(const std::string &viol_props, const std::string &prop);
Outcome check_plan(const std::string &prop, const Plan &p);
