// Coverage only: reads internal fields of struct cat_object. Never used by an oracle. If
// cat.h no longer has these fields the build falls back to peek_stub.cc.
extern "C" {
#include "cat.h"
}
#include <cstddef>
extern "C" size_t peek_mutable_offset(void) { return offsetof(struct cat_object, index); }
extern "C" int peek_state(const void *o, int out[4])
{
        const struct cat_object *obj = (const struct cat_object *)o;
        out[0] = (int)obj->state;
        out[1] = (int)obj->unsolicited_fsm.state;
        out[2] = (int)obj->unsolicited_fsm.unsolicited_cmd_buffer_items_count;
        out[3] = obj->hold_state_flag ? 1 : 0;
        return 1;
}
