#include "gen.h"
#include "model.h"
#include <algorithm>

namespace {

const char NAME_ALPHA[] = "ABCDEFGHIJKLMNOPQRSTUVWXYZabcdefghijklmnopqrstuvwxyz0123456789+#$@_%&";

struct Knobs {
        // world
        int min_cmds = 1, max_cmds = 8;
        double p_many_cmds = 0.03; // 30..300 commands
        double p_small_cap = 0.3, p_large_cap = 0.3;
        double p_shared = 0.7;
        int max_vars = 4;
        double p_vars = 0.6;
        double p_handler = 0.5;
        double p_script = 0.5;    // handler has a non-default script
        double p_hold = 0.08;     // a script step is HOLD
        double p_text_act = 0.3;  // read/test script step edits the buffer
        double p_bump = 0.15;
        double p_trig_act = 0.05;
        double p_badcode = 0.08;
        double p_varcb = 0.2, p_varcb_fail = 0.15;
        double p_disable = 0.1, p_only_test = 0.08, p_implicit = 0.08, p_need_all = 0.2;
        double p_group_disable = 0.08;
        double p_unsupported_size = 0.02;
        int ev_cmds_max = 3;
        double p_events = 0.6; // plan uses events at all
        double p_mutex = 0.1;
        bool prefix_names = true;
        // lines
        int min_lines = 1, max_lines = 10;
        double p_garbage = 0.08, p_blank = 0.05, p_overlong = 0.05, p_noise = 0.05;
        double p_valid_args = 0.6;
        double p_crlf = 0.4, p_stray_cr = 0.1;
        double p_nul = 0.02;
        // schedule
        double p_faults = 0.7; // plan has rx/tx fault patterns at all
        double p_flag_ops = 0.15, p_setvar_ops = 0.1, p_hexit_ops = 0.15, p_qbuf_ops = 0.2, p_probe = 0.1;
        double p_probe_ok = 0.3;
        double p_phases = 0.3;
        double p_long_run = 0.03;
        double p_cbtrig = 0.0; // triggers issued from inside an io read / write callback
        double p_swarm = 0.0; // a table in which about 256 enabled commands share one prefix (8-bit candidate counters wrap)
        double p_pump = 0.01; // a few hundred events in one op (8-bit ring counters wrap)
        double p_marathon = 0.0; // more than 65536 accepted events (16-bit counters wrap)
        double p_giant = 0.0004; // working buffer beyond 64 KiB with argument text that crosses the 16-bit boundary
        double p_cut_crlf = 0.08;
        double p_other = 0.15; // a second parser instance runs in between
        double p_ev_release = 0.15; // event handlers that release a hold
        int max_svc_gap = 60;
        bool observe = true;
        bool scribble = false;
        bool monitor_domain = true; // stay inside the modelled domain
};

struct Gen {
        Rng r;
        Knobs K;
        Plan p;
        ModelState ms; // tracks variable values so that valid/boundary arguments can be derived
        bool giant = false;
        bool force_marathon = false;
        std::string swarm_prefix;
        bool empty_ev = false; // which producer may send empty handler texts
        explicit Gen(uint64_t seed) : r(seed) {}

        std::string rand_name(int maxlen)
        {
                int n = (int)r.range(1, maxlen);
                std::string s;
                if (r.chance(0.6))
                        s += '+';
                while ((int)s.size() < n)
                        s += NAME_ALPHA[r.below(sizeof NAME_ALPHA - 1)];
                return s;
        }

        std::string mangle_case(const std::string &s, double pr)
        {
                std::string o = s;
                for (auto &c : o)
                        if (r.chance(pr)) {
                                if (c >= 'a' && c <= 'z')
                                        c = (char)(c - 32);
                                else if (c >= 'A' && c <= 'Z')
                                        c = (char)(c + 32);
                        }
                return o;
        }

        bytes rand_text(int n, bool marker)
        {
                static const char alpha[] = "abcdefghijklmnopqrstuvwxyz0123456789 :;.-_/()*!<>[]=,";
                bytes t;
                if (marker)
                        t += '~';
                while ((int)t.size() < n)
                        t += alpha[r.below(sizeof alpha - 1)];
                return t;
        }

        VarSpec gen_var(bool force_ro)
        {
                VarSpec v;
                v.type = (int)r.below(5);
                if (v.type <= T_HEX) {
                        static const int sz[3] = {1, 2, 4};
                        v.size = sz[r.below(3)];
                        if (r.chance(K.p_unsupported_size))
                                v.size = r.coin() ? 3 : 8;
                } else {
                        v.size = r.chance(0.6) ? (int)r.range(1, 8) : (int)r.range(1, 64);
                }
                v.access = force_ro ? ACC_RO : (r.chance(0.6) ? ACC_RW : (r.coin() ? ACC_RO : ACC_WO));
                v.named = r.chance(0.6);
                if (v.named)
                        v.name = rand_text((int)r.range(0, 6), false);
                if (r.chance(K.p_varcb))
                        v.rcb = r.chance(K.p_varcb_fail) ? 2 : 1;
                if (r.chance(K.p_varcb))
                        v.wcb = r.chance(K.p_varcb_fail) ? 2 : 1;
                v.init = rand_value(v);
                return v;
        }

        bytes rand_value(const VarSpec &v)
        {
                bytes b((size_t)v.size, 0);
                if (v.type == T_STRING) {
                        int len = (int)r.range(0, v.size - 1);
                        // "grammar soup": a value made of nothing but the characters the argument grammar gives a meaning to
                        double p_special = r.chance(0.15) ? 1.0 : 0.2;
                        for (int i = 0; i < len; i++) {
                                char c;
                                do {
                                        c = r.chance(p_special) ? "\"\\\n, n"[r.below(6)] : (char)r.range(1, 255);
                                } while (c == 0 || c == '\r');
                                b[(size_t)i] = c;
                        }
                        // bytes after the terminator: arbitrary
                        for (int i = len + 1; i < v.size; i++)
                                b[(size_t)i] = (char)r.next();
                        return b;
                }
                if (v.type <= T_HEX && r.chance(0.4)) {
                        static const uint64_t edge[] = {0, 1, 0x7f, 0x80, 0xff, 0x7fff, 0x8000, 0xffff, 0x7fffffff, 0x80000000u, 0xffffffffu};
                        uint64_t e = edge[r.below(sizeof edge / sizeof *edge)];
                        for (int i = 0; i < v.size && i < 8; i++)
                                b[(size_t)i] = (char)(e >> (8 * i));
                        return b;
                }
                for (auto &c : b)
                        c = (char)r.next();
                return b;
        }

        std::vector<Step> gen_script(int kind, bool ev_cmd, int nvars, int cap)
        {
                std::vector<Step> s;
                if (!r.chance(K.p_script))
                        return s;
                int n = (int)r.range(1, r.chance(0.2) ? 6 : 3);
                for (int i = 0; i < n; i++) {
                        Step st;
                        bool last = i + 1 == n;
                        if (!last)
                                st.code = r.coin() ? RC_NEXT : RC_DATA_NEXT;
                        else {
                                double x = (double)r.below(1000) / 1000.0;
                                if (x < K.p_hold && !ev_cmd)
                                        st.code = RC_HOLD;
                                else if (x < K.p_hold + K.p_badcode) {
                                        static const int bad[] = {-2, 9, 1000, RC_HOLD_EXIT_OK, RC_HOLD_EXIT_ERROR, RC_PRINT_CMD_LIST_OK, RC_ERROR};
                                        st.code = bad[r.below(7)];
                                        if (ev_cmd && K.p_ev_release <= 0.0 && (st.code == RC_HOLD_EXIT_OK || st.code == RC_HOLD_EXIT_ERROR))
                                                st.code = RC_ERROR; // profiles in which event handlers must not release holds
                                } else {
                                        static const int term[] = {RC_OK, RC_DATA_OK, RC_ERROR, RC_PRINT_CMD_LIST_OK, RC_DATA_OK, RC_OK};
                                        st.code = term[r.below(6)];
                                }
                        }
                        if ((kind == K_READ || kind == K_TEST) && r.chance(K.p_text_act)) {
                                st.act = r.coin() ? A_SETTEXT : A_APPEND;
                                int mx = std::max(2, cap - 1); // the longest text that still leaves room for the terminator
                                int len = r.chance(giant ? 0.01 : 0.15) ? mx : (int)r.range(2, std::min(mx, 12));
                                // handler texts of event sources and of line-addressable commands never coincide, so that
                                // a unit on the wire is attributable to its producer
                                st.text = rand_text(len, true);
                                st.text[1] = ev_cmd ? 'e' : 'c';
                                // a handler may also empty the prepared text and still ask for it to be sent: the unit is then two bare
                                // newlines; only one producer per plan does so (attribution)
                                if (ev_cmd == empty_ev && r.chance(0.08)) {
                                        st.act = A_SETTEXT;
                                        st.text.clear();
                                }
                        } else if (nvars > 0 && !ev_cmd && r.chance(K.p_bump)) {
                                st.act = A_BUMP;
                                st.a = (int)r.below((uint64_t)nvars);
                        }
                        s.push_back(st);
                }
                return s;
        }

        void gen_world(int qcap)
        {
                p.qcap = qcap;
                p.fill = r.next() | 1;
                p.observe = K.observe;
                p.scribble = K.scribble;
                p.probe_ok = r.chance(K.p_probe_ok);
                p.mutex = r.chance(K.p_mutex);
                p.other = r.chance(K.p_other);
                int ncmd = (int)r.range(K.min_cmds, K.max_cmds);
                if (r.chance(K.p_many_cmds))
                        ncmd = (int)r.range(30, 300);
                int swarm_n = 0;
                if (r.chance(K.p_swarm)) {
                        static const int tg[] = {255, 256, 257, 257, 257, 258};
                        swarm_n = tg[r.below(6)];
                        ncmd = swarm_n + (int)r.range(0, 299 - swarm_n);
                        swarm_prefix = rand_name(3);
                }
                // capacities
                int cap;
                double x = (double)r.below(1000) / 1000.0;
                if (x < K.p_small_cap)
                        cap = (int)r.range(6, 24);
                else if (x < K.p_small_cap + K.p_large_cap)
                        cap = r.chance(0.25) ? (int)r.range(257, 1100) : (int)r.range(96, 256); // beyond 255: 8-bit positions wrap
                else
                        cap = (int)r.range(24, 96);
                cap = std::max(cap, (ncmd + 3) / 4);
                p.shared = r.chance(K.p_shared);
                giant = r.chance(K.p_giant);
                empty_ev = r.coin();
                if (giant) {
                        cap = (int)r.range(65530, r.coin() ? 65560 : 70000);
                        p.shared = r.chance(0.15);
                }
                if (p.shared) {
                        p.buf_size = cap * 2 + (int)r.below(2);
                        p.ubuf_size = 0;
                } else {
                        p.buf_size = cap;
                        p.ubuf_size = r.chance(0.3) ? (int)r.range(0, 12) : (int)r.range(8, 160);
                }
                int ngroups = r.chance(0.6) ? 1 : (int)r.range(2, 4);
                ngroups = std::min(ngroups, ncmd);
                for (int g = 0; g < ngroups; g++) {
                        GroupSpec gs;
                        gs.disable = r.chance(K.p_group_disable) && swarm_n == 0;
                        gs.named = r.coin();
                        if (gs.named)
                                gs.name = rand_text(4, false);
                        p.groups.push_back(gs);
                }
                std::vector<std::string> pool;
                for (int i = 0; i < ncmd; i++) {
                        CmdSpec c;
                        // names: fresh, or derived from an existing one so that prefix chains, duplicates and near misses exist
                        if (i < swarm_n) {
                                static const char SW[] = "ABCDEFGHIJKLMNOPQRSTUVWXYZ0123456789";
                                c.name = swarm_prefix + SW[i / 36] + SW[i % 36];
                        } else if (!pool.empty() && K.prefix_names && r.chance(0.55)) {
                                std::string base = pool[r.below(pool.size())];
                                int how = (int)r.below(5);
                                if (how == 0 && base.size() < 14)
                                        c.name = base + NAME_ALPHA[r.below(sizeof NAME_ALPHA - 1)];
                                else if (how == 1 && base.size() < 12)
                                        c.name = base + rand_name(3).substr(0, 2);
                                else if (how == 2 && base.size() > 1)
                                        c.name = base.substr(0, (size_t)r.range(1, (int64_t)base.size() - 1));
                                else if (how == 3)
                                        c.name = mangle_case(base, 0.5);
                                else {
                                        c.name = base;
                                        c.name[r.below(c.name.size())] = NAME_ALPHA[r.below(sizeof NAME_ALPHA - 1)];
                                }
                        } else
                                c.name = rand_name(ncmd > 30 ? 5 : 8);
                        if (i >= swarm_n)
                                pool.push_back(c.name);
                        c.group = i < ngroups ? i : (int)r.below((uint64_t)ngroups);
                        c.implicit = r.chance(K.p_implicit);
                        c.only_test = r.chance(K.p_only_test);
                        c.disable = r.chance(K.p_disable);
                        if (i < swarm_n)
                                c.disable = c.implicit = false;
                        c.need_all = r.chance(K.p_need_all);
                        if (r.chance(0.4)) {
                                c.has_desc = true;
                                c.desc = rand_text((int)r.range(0, 10), false);
                        }
                        if (r.chance(K.p_vars)) {
                                int nv = (int)r.range(1, r.chance(0.1) ? 8 : K.max_vars);
                                for (int v = 0; v < nv; v++)
                                        c.vars.push_back(gen_var(false));
                        } else
                                c.var_null = r.coin();
                        for (int k = 0; k < 4; k++) {
                                c.h[k] = r.chance(K.p_handler);
                                if (c.implicit && k != K_WRITE)
                                        c.h[k] = false;
                                if (c.h[k])
                                        c.script[k] = gen_script(k, false, (int)c.vars.size(), p.cmd_cap());
                        }
                        p.cmds.push_back(c);
                }
                // event sources
                if (r.chance(K.p_events)) {
                        int ne = (int)r.range(1, K.ev_cmds_max);
                        for (int i = 0; i < ne; i++) {
                                CmdSpec c;
                                c.ev = 1;
                                c.name = "%" + rand_name(5) + std::to_string(i);
                                for (bool clash = true; clash;) {
                                        clash = false;
                                        for (auto &o : p.cmds)
                                                clash |= o.name == c.name;
                                        if (clash)
                                                c.name += "x";
                                }
                                int where = (int)r.below(10);
                                bool stat = false;
                                // never reachable from the input: units of the two producers stay attributable
                                if (where < 5) {
                                        c.registered = false;
                                } else {
                                        c.registered = true;
                                        c.disable = true;
                                        c.group = (int)r.below((uint64_t)ngroups);
                                }
                                if ((p.registered_count() + 1 + 3) / 4 > p.cmd_cap())
                                        c.registered = false;
                                if (r.chance(0.4)) {
                                        c.has_desc = true;
                                        c.desc = rand_text((int)r.range(0, 8), false);
                                }
                                if (r.chance(0.8)) {
                                        int nv = (int)r.range(1, 3);
                                        for (int v = 0; v < nv; v++) {
                                                VarSpec vs = gen_var(stat);
                                                if (stat)
                                                        vs.wcb = 0;
                                                c.vars.push_back(vs);
                                        }
                                }
                                for (int k : {K_READ, K_TEST}) {
                                        c.h[k] = r.chance(K.p_handler);
                                        if (c.h[k]) {
                                                c.script[k] = gen_script(k, true, stat ? 0 : (int)c.vars.size(), std::max(2, p.ev_cap()));
                                                if (!stat)
                                                        for (auto &st : c.script[k])
                                                                if (st.act == A_NONE && !c.vars.empty() && r.chance(K.p_bump)) {
                                                                        st.act = A_BUMP;
                                                                        st.a = (int)r.below(c.vars.size());
                                                                }
                                        }
                                }
                                if (stat) {
                                        c.h[K_WRITE] = c.h[K_RUN] = false;
                                }
                                p.cmds.push_back(c);
                        }
                }
                // handler-side API calls (never with a mutex: that would be the application nesting the lock)
                if (!p.mutex) {
                        std::vector<int> evs;
                        for (size_t i = 0; i < p.cmds.size(); i++)
                                if (p.cmds[i].ev)
                                        evs.push_back((int)i);
                        for (auto &c : p.cmds) {
                                bool stat_ev = c.ev && c.registered && !c.disable;
                                for (int k = 0; k < 4; k++)
                                        for (auto &st : c.script[k]) {
                                                if (st.act != A_NONE || stat_ev)
                                                        continue;
                                                if (!evs.empty() && !c.ev && r.chance(K.p_trig_act)) {
                                                        st.act = A_TRIG;
                                                        st.a = evs[r.below(evs.size())];
                                                        st.b = r.coin() ? CT_READ : CT_TEST;
                                                } else if (c.ev && r.chance(K.p_ev_release * 0.7)) {
                                                        st.act = A_HEXIT;
                                                        st.a = (int)r.below(2);
                                                }
                                        }
                                // event handlers may release a hold through their return code
                                if (c.ev && !stat_ev)
                                        for (int k : {K_READ, K_TEST})
                                                if (c.h[k] && !c.script[k].empty() && r.chance(K.p_ev_release))
                                                        c.script[k].back().code = r.coin() ? RC_HOLD_EXIT_OK : RC_HOLD_EXIT_ERROR;
                        }
                }
                // keep event TEST texts away from the capacity at which the embedded newline style decides the fit
                for (size_t i = 0; i < p.cmds.size(); i++) {
                        CmdSpec &c = p.cmds[i];
                        for (int tries = 0; tries < 4 && c.ev && c.has_desc; tries++) {
                                std::string t = model_test_text(p, (int)i, "\n");
                                size_t before = t.size() - c.desc.size();
                                if ((int)before == p.ev_cap() - 1) {
                                        c.has_desc = false;
                                        c.desc.clear();
                                } else if ((int)t.size() == p.ev_cap() - 1)
                                        c.desc += "x";
                                else
                                        break;
                        }
                }
                ms.init(p);
        }

        // ---------------------------------------------------------------- arguments

        std::string digits_around(uint64_t v)
        {
                // decimal text of v-1, v, v+1 or v with leading zeros (arbitrary precision not needed here)
                int how = (int)r.below(4);
                unsigned __int128 x = v;
                if (how == 0 && v > 0)
                        x = x - 1;
                else if (how == 1)
                        x = x + 1;
                std::string s;
                if (x == 0)
                        s = "0";
                while (x > 0) {
                        s.insert(s.begin(), (char)('0' + (int)(x % 10)));
                        x /= 10;
                }
                if (how == 3)
                        s = std::string((size_t)r.range(1, 25), '0') + s;
                return s;
        }

        std::string rand_digits(int n)
        {
                std::string s;
                for (int i = 0; i < n; i++)
                        s += (char)('0' + r.below(10));
                return s;
        }

        std::string gen_arg(const VarSpec &v, bool valid)
        {
                static const uint64_t bounds[] = {0, 127, 128, 255, 256, 32767, 32768, 65535, 65536, 2147483647ULL, 2147483648ULL, 4294967295ULL, 4294967296ULL,
                                                  9223372036854775807ULL, 9223372036854775808ULL, 18446744073709551615ULL};
                bool ro = v.access == ACC_RO;
                switch (v.type) {
                case T_INT: {
                        if (valid) {
                                int64_t lim = v.size == 1 ? 127 : v.size == 2 ? 32767 : 2147483647LL;
                                int64_t val = r.chance(0.3) ? (r.coin() ? lim : -lim - 1) : r.range(-lim - 1, lim);
                                std::string s = std::to_string(val);
                                if (val >= 0 && r.chance(0.2))
                                        s = "+" + s;
                                if (r.chance(0.1))
                                        s.insert(s[0] == '-' || s[0] == '+' ? 1 : 0, std::string((size_t)r.range(1, 6), '0'));
                                return s;
                        }
                        int how = (int)r.below(8);
                        std::string sign = r.chance(0.4) ? "-" : (r.chance(0.2) ? "+" : "");
                        if (how <= 2)
                                return sign + digits_around(bounds[r.below(16)]);
                        if (how == 3)
                                return sign + (ro ? rand_digits((int)r.range(1, 18)) : rand_digits((int)r.range(19, 40)));
                        if (how == 4)
                                return sign;
                        if (how == 5)
                                return sign + sign + rand_digits(2);
                        if (how == 6)
                                return rand_digits(2) + (char)r.range(32, 126) + rand_digits(1);
                        return ro ? "18446744073709551621" + std::string() : (sign + "18446744073709551621");
                }
                case T_UINT: {
                        if (valid) {
                                uint64_t lim = v.size == 1 ? 255 : v.size == 2 ? 65535 : 4294967295ULL;
                                uint64_t val = r.chance(0.3) ? lim : r.below(lim + 1);
                                std::string s = std::to_string(val);
                                if (r.chance(0.1))
                                        s = std::string((size_t)r.range(1, 6), '0') + s;
                                return s;
                        }
                        int how = (int)r.below(7);
                        if (how <= 2)
                                return digits_around(bounds[r.below(16)]);
                        if (how == 3)
                                return ro ? rand_digits((int)r.range(1, 19)) : rand_digits((int)r.range(19, 40));
                        if (how == 4)
                                return "";
                        if (how == 5)
                                return std::string(r.coin() ? "-" : "+") + rand_digits(2);
                        return ro ? "1844674407370955162" : "18446744073709551621";
                }
                case T_HEX: {
                        auto hexdigits = [&](int n) {
                                std::string s;
                                for (int i = 0; i < n; i++)
                                        s += "0123456789abcdefABCDEF"[r.below(22)];
                                return s;
                        };
                        std::string px = r.coin() ? "0x" : "0X";
                        if (valid) {
                                int n = (int)r.range(1, v.size * 2);
                                std::string s = hexdigits(n);
                                if (r.chance(0.2))
                                        s = std::string((size_t)r.range(1, 12), '0') + s;
                                return px + s;
                        }
                        int how = (int)r.below(7);
                        if (how == 0)
                                return px + hexdigits(v.size * 2 + 1);
                        if (how == 1)
                                return px + "1" + std::string((size_t)v.size * 2, '0');
                        if (how == 2)
                                return px;
                        if (how == 3)
                                return hexdigits(2);
                        if (how == 4)
                                return px + hexdigits((int)r.range(ro ? 1 : 17, ro ? 16 : 40));
                        if (how == 5)
                                return px + hexdigits(1) + "g";
                        return ro ? px + "FFFFFFFFFFFFFFFF" : px + "10000000000000005";
                }
                case T_BUFHEX: {
                        auto hexdigits = [&](int n) {
                                std::string s;
                                for (int i = 0; i < n; i++)
                                        s += "0123456789abcdefABCDEF"[r.below(22)];
                                return s;
                        };
                        if (valid)
                                return hexdigits(2 * (int)r.range(1, v.size));
                        int how = (int)r.below(6);
                        if (how == 0)
                                return hexdigits(2 * v.size + 2);
                        if (how == 1)
                                return hexdigits(2 * (int)r.range(0, v.size) + 1);
                        if (how == 2)
                                return "";
                        if (how == 3) {
                                std::string s = hexdigits(2 * (int)r.range(1, v.size));
                                s[r.below(s.size())] = "gG xZ-"[r.below(6)];
                                return s;
                        }
                        if (how == 4)
                                return hexdigits(2 * v.size + 1);
                        return hexdigits(2 * v.size) + hexdigits(2 * (int)r.range(1, 3));
                }
                case T_STRING: {
                        // decoded length target around data_size-1
                        int target;
                        if (valid)
                                target = r.chance(0.4) ? v.size - 1 : (int)r.range(0, v.size - 1);
                        else
                                target = r.chance(0.6) ? v.size + (int)r.range(0, 1) : (int)r.range(0, v.size - 1);
                        std::string s = "\"";
                        for (int i = 0; i < target; i++) {
                                bool lastc = i + 1 == target;
                                if (r.chance(lastc ? 0.5 : 0.15)) {
                                        s += "\\";
                                        s += "\\\"n"[r.below(3)];
                                } else {
                                        char c;
                                        do
                                                c = (char)r.range(1, 255);
                                        while (c == '"' || c == '\\' || c == '\r' || c == '\n' || c == 0);
                                        s += c;
                                }
                        }
                        s += "\"";
                        if (!valid && target < v.size) {
                                int how = (int)r.below(5);
                                if (how == 0)
                                        s.pop_back(); // closing quote missing
                                else if (how == 1)
                                        s += "x";
                                else if (how == 2)
                                        s = s.substr(1);
                                else if (how == 3 && s.size() > 2)
                                        s.insert(s.size() - 1, "\\q");
                                else
                                        s.insert(s.size() - 1, "\\");
                        }
                        return s;
                }
                }
                return "";
        }

        bytes gen_args_for(const CmdSpec &c)
        {
                bytes a;
                if (c.vars.empty() || c.var_null) {
                        int n = (int)r.range(0, 12);
                        for (int i = 0; i < n; i++) {
                                char ch = r.chance(K.p_nul) ? 0 : (char)r.range(1, 255);
                                if (ch == '\n')
                                        ch = 'n';
                                a += ch;
                        }
                        if (r.chance(0.15))
                                a = "?" + a;
                        return a;
                }
                bool all_valid = r.chance(K.p_valid_args);
                int nv = (int)c.vars.size();
                int count = nv;
                if (r.chance(0.25))
                        count = (int)r.range(1, nv + 1);
                for (int i = 0; i < count; i++) {
                        const VarSpec &v = c.vars[(size_t)std::min(i, nv - 1)];
                        bool valid = all_valid || r.chance(0.7);
                        if (i)
                                a += ',';
                        if (i && r.chance(0.03))
                                a += ' '; // a blank after the separator is not part of any argument grammar
                        a += gen_arg(v, valid);
                }
                if (r.chance(0.04))
                        a += ',';
                return a;
        }

        // ---------------------------------------------------------------- lines

        bytes gen_line()
        {
                bytes body;
                double x = (double)r.below(1000) / 1000.0;
                int cap = p.cmd_cap();
                if (x < K.p_blank) {
                        body = std::string((size_t)r.below(3), '\r');
                        return body + "\n";
                }
                if (x < K.p_blank + K.p_garbage) {
                        int n = (int)r.range(1, 20);
                        int how = (int)r.below(4);
                        if (how == 0)
                                body = "A";
                        else if (how == 1)
                                body = "AT";
                        else if (how == 2)
                                body = r.coin() ? "at" : "aT";
                        for (int i = 0; i < n; i++) {
                                char ch = (char)r.range(0, 255);
                                if (ch == '\n')
                                        ch = ' ';
                                if (ch == 0 && !r.chance(0.2))
                                        ch = '0';
                                body += ch;
                        }
                        if (how == 3 && r.coin())
                                body = r.coin() ? "AT" : (r.coin() ? "A" : "AT?");
                        return finish_line(body);
                }
                // address a command
                std::vector<int> reg;
                for (size_t i = 0; i < p.cmds.size(); i++)
                        if (p.cmds[i].registered)
                                reg.push_back((int)i);
                int ci = reg[r.below(reg.size())];
                const CmdSpec &c = p.cmds[(size_t)ci];
                std::string name = c.name;
                int how = (int)r.below(10);
                if (how == 0 && name.size() > 1)
                        name = name.substr(0, (size_t)r.range(1, (int64_t)name.size() - 1)); // abbreviation
                else if (how == 1)
                        name += NAME_ALPHA[r.below(sizeof NAME_ALPHA - 1)];
                else if (how == 2 && !name.empty())
                        name[r.below(name.size())] = NAME_ALPHA[r.below(sizeof NAME_ALPHA - 1)];
                else if (how == 3 && !name.empty())
                        name.insert(r.below(name.size() + 1), 1, "!~ ^*(;"[r.below(7)]);
                if (!swarm_prefix.empty() && r.chance(0.3))
                        name = swarm_prefix; // the abbreviation every member of the swarm shares
                name = mangle_case(name, 0.3);
                body = r.chance(0.9) ? "AT" : mangle_case("AT", 0.5);
                body += name;
                int suffix = (int)r.below(10);
                if (suffix < 2) {
                        // run
                } else if (suffix < 4) {
                        body += "?";
                        if (r.chance(0.05))
                                body += "x";
                } else if (suffix < 5) {
                        body += "=?";
                        if (r.chance(0.1))
                                body += (char)r.range(33, 126);
                } else {
                        if (!c.implicit || r.chance(0.3))
                                body += "=";
                        bytes args = gen_args_for(c);
                        if (r.chance(K.p_overlong)) {
                                int want = (int)r.range(cap - 2, cap + 1);
                                if (r.chance(0.2))
                                        want = cap * 3;
                                while ((int)args.size() < want)
                                        args += (char)('a' + r.below(26));
                                if ((int)args.size() > want && r.coin())
                                        args.resize((size_t)std::max(0, want));
                        }
                        if (giant && r.chance(0.6)) {
                                // the argument text crosses 65536 bytes: filler in front of, or in the middle of, the generated arguments
                                size_t want = (size_t)r.range(65520, 65560);
                                if (want + args.size() + 2 >= (size_t)cap && r.coin())
                                        want = (size_t)std::max(0, cap - (int)args.size() - (int)r.range(1, 4));
                                int how = (int)r.below(4);
                                std::string fill;
                                for (size_t i = 0; i < want; i++)
                                        fill += how == 0 ? '0' : how == 1 ? (char)('1' + r.below(9)) : how == 2 ? (char)('a' + r.below(6)) : (char)('a' + r.below(26));
                                size_t at = r.coin() ? 0 : (size_t)r.below(args.size() + 1);
                                args.insert(at, fill);
                        }
                        if (r.chance(0.03))
                                args += "\nAT" + c.name; // text that would be a command of its own if the line were cut
                        body += args;
                }
                return finish_line(body);
        }

        bytes finish_line(bytes body)
        {
                // the body may contain LF only if deliberately put there
                if (r.chance(K.p_stray_cr) && !body.empty())
                        body.insert(r.below(body.size() + 1), 1, '\r');
                if (r.chance(K.p_noise) && !body.empty()) {
                        size_t at = r.below(body.size());
                        int how = (int)r.below(4);
                        if (how == 0)
                                body[at] = (char)(body[at] ^ (1 << r.below(7)));
                        else if (how == 1)
                                body.erase(at, 1);
                        else if (how == 2)
                                body.insert(at, 1, body[at]);
                        else
                                body.insert(at, 1, (char)r.range(1, 255));
                        for (auto &ch : body)
                                if (ch == 0)
                                        ch = '0';
                }
                if (r.chance(K.p_crlf))
                        body += "\r";
                return body + "\n";
        }

        // ---------------------------------------------------------------- operations

        void op(int kind, int64_t a = 0, int64_t b = 0, int64_t c = 0, int64_t d = 0)
        {
                Op o;
                o.kind = kind;
                o.a = a;
                o.b = b;
                o.c = c;
                o.d = d;
                p.ops.push_back(o);
        }

        void rand_rx_mode()
        {
                int how = (int)r.below(4);
                static const int pm[] = {20, 100, 300, 600};
                if (how == 0)
                        op(OP_RX_READY);
                else if (how == 1)
                        op(OP_RX_STALL, r.range(1, r.chance(0.2) ? 200 : 12));
                else
                        op(OP_RX_PAT, (int64_t)(r.next() >> 8), pm[r.below(4)], r.range(1, 6));
        }

        void rand_tx_mode()
        {
                int how = (int)r.below(4);
                static const int pm[] = {20, 100, 300, 600};
                int code = r.coin() ? 0 : -1;
                if (how == 0)
                        op(OP_TX_OK);
                else if (how == 1)
                        op(OP_TX_REFUSE, r.range(1, r.chance(0.2) ? 200 : 12), code);
                else
                        op(OP_TX_PAT, (int64_t)(r.next() >> 8), pm[r.below(4)], r.range(1, 6), code);
        }

        void gen_ops()
        {
                std::vector<int> evs;
                for (size_t i = 0; i < p.cmds.size(); i++)
                        if (p.cmds[i].ev)
                                evs.push_back((int)i);
                bool faults = r.chance(K.p_faults);
                int phases = r.chance(K.p_phases) ? (int)r.range(2, 3) : 1;
                int nlines = (int)r.range(K.min_lines, K.max_lines);
                if (r.chance(K.p_long_run))
                        nlines *= 5;
                for (int ph = 0; ph < phases; ph++) {
                        if (faults) {
                                if (r.coin())
                                        rand_rx_mode();
                                if (r.coin())
                                        rand_tx_mode();
                        }
                        int lines_here = std::max(1, nlines / phases);
                        int rounds = lines_here * 3;
                        int fed = 0;
                        int pump_at = -1;
                        if (!evs.empty() && ph == 0 && (force_marathon || r.chance(K.p_pump)))
                                pump_at = (int)r.below((uint64_t)rounds);
                        for (int k = 0; k < rounds; k++) {
                                if (k == pump_at) {
                                        int64_t per = r.range(1, p.qcap + 1); // the last one of qcap+1 is refused
                                        bool mar = force_marathon || r.chance(K.p_marathon / std::max(K.p_pump, 1e-9));
                                        if (mar && r.chance(0.7))
                                                per = p.qcap + (int64_t)r.below(2); // the queue is full whenever the counters wrap
                                        int64_t acc = std::min<int64_t>(per, p.qcap);
                                        int64_t rounds_p = r.range(200, 700) / acc + 1;
                                        if (mar)
                                                rounds_p = (65536 + r.range(-8, 600)) / acc + 1;
                                        op(OP_PUMP, evs[r.below(evs.size())], r.coin() ? CT_READ : CT_TEST, rounds_p, per);
                                }
                                double x = (double)r.below(1000) / 1000.0;
                                if (fed < lines_here && x < 0.4) {
                                        bytes line = gen_line();
                                        fed++;
                                        if (line.size() > 2 && line[line.size() - 2] == '\r' && r.chance(K.p_cut_crlf)) {
                                                // the host pauses between CR and LF long enough for everything to settle
                                                in_op(line.substr(0, line.size() - 1));
                                                op(r.coin() ? OP_SVCQ : OP_QUIESCE, 20000);
                                                if (r.chance(0.3))
                                                        op(OP_SVC, r.range(1, 30));
                                                in_op("\n");
                                        } else if (r.chance(0.2) && line.size() > 2) {
                                                size_t cut = (size_t)r.range(1, (int64_t)line.size() - 1);
                                                Op o;
                                                o.kind = OP_IN;
                                                o.data = line.substr(0, cut);
                                                p.ops.push_back(o);
                                                op(OP_SVC, r.range(0, 20));
                                                o.data = line.substr(cut);
                                                p.ops.push_back(o);
                                        } else {
                                                Op o;
                                                o.kind = OP_IN;
                                                o.data = line;
                                                p.ops.push_back(o);
                                        }
                                        if (r.chance(0.7))
                                                op(OP_SVC, r.range(0, K.max_svc_gap));
                                        else if (r.chance(0.5))
                                                op(OP_SVCQ, 20000);
                                        continue;
                                }
                                x = (double)r.below(1000) / 1000.0;
                                if (!evs.empty() && x < 0.35) {
                                        int burst = r.chance(0.3) ? (int)r.range(2, p.qcap + 3) : 1;
                                        for (int b = 0; b < burst; b++) {
                                                if (r.chance(K.p_cbtrig))
                                                        op(OP_TRIGCB, evs[r.below(evs.size())], r.coin() ? CT_READ : CT_TEST, (int64_t)r.below(2), r.chance(0.5) ? 0 : r.range(1, 12));
                                                else
                                                        op(OP_TRIG, evs[r.below(evs.size())], r.coin() ? CT_READ : CT_TEST);
                                        }
                                        if (r.chance(0.5))
                                                op(OP_SVC, r.range(0, K.max_svc_gap));
                                } else if (x < 0.35 + K.p_hexit_ops) {
                                        op(OP_HEXIT, (int64_t)r.below(2));
                                        if (r.chance(0.2))
                                                op(OP_HEXIT, (int64_t)r.below(2));
                                } else if (!evs.empty() && x < 0.5 + K.p_qbuf_ops) {
                                        op(OP_QBUF, evs[r.below(evs.size())], r.range(-1, 3) == 0 ? CT_NONE : (r.coin() ? CT_READ : CT_TEST));
                                } else if (x < 0.7 + K.p_flag_ops && r.chance(K.p_flag_ops * 3)) {
                                        if (r.chance(0.25))
                                                op(OP_FLAG, 1, (int64_t)r.below(p.groups.size()), (int64_t)r.below(2));
                                        else {
                                                int ci = (int)r.below(p.cmds.size());
                                                if (!p.cmds[(size_t)ci].ev && p.cmds[(size_t)ci].registered)
                                                        op(OP_FLAG, 0, ci, (int64_t)r.below(2));
                                        }
                                } else if (r.chance(K.p_setvar_ops)) {
                                        int ci = (int)r.below(p.cmds.size());
                                        const CmdSpec &c = p.cmds[(size_t)ci];
                                        if (!c.ev && !c.vars.empty()) {
                                                int vi = (int)r.below(c.vars.size());
                                                Op o;
                                                o.kind = OP_SETVAR;
                                                o.a = ci;
                                                o.b = vi;
                                                o.data = rand_value(c.vars[(size_t)vi]);
                                                p.ops.push_back(o);
                                        }
                                } else if (r.chance(K.p_probe)) {
                                        op(OP_PROBE);
                                } else if (faults && r.chance(0.3)) {
                                        if (r.coin())
                                                rand_rx_mode();
                                        else
                                                rand_tx_mode();
                                } else
                                        op(OP_SVC, r.range(1, K.max_svc_gap));
                        }
                        op(OP_DRAIN);
                }
        }

        // ------------------------------------------------------------ a held command that is an event source itself
        // The command suspended by its own write handler also receives events while it waits, and the hold is released
        // through the API or by its own event handlers at arbitrary moments of those events' units. The input never
        // contains '?', so the command side emits result codes only and every unit stays attributable.
        void gen_ops_hold_own()
        {
                int t = -1;
                for (size_t i = 0; i < p.cmds.size() && t < 0; i++) {
                        const CmdSpec &c = p.cmds[i];
                        if (!c.ev && c.registered && !c.disable && !p.groups[(size_t)c.group].disable && !c.only_test && !c.implicit)
                                t = (int)i;
                }
                if (t < 0) {
                        gen_ops();
                        return;
                }
                CmdSpec &c = p.cmds[(size_t)t];
                c.name = "+HO" + rand_digits(4);
                for (bool clash = true; clash;) {
                        clash = false;
                        for (size_t i = 0; i < p.cmds.size(); i++)
                                clash |= (int)i != t && upper(p.cmds[i].name).compare(0, c.name.size(), upper(c.name)) == 0;
                        if (clash)
                                c.name += (char)('0' + r.below(10));
                }
                c.ev = 1;
                c.need_all = false;
                for (auto &v : c.vars)
                        v.access = ACC_RO; // no line can change what its events print
                c.h[K_RUN] = false;
                c.script[K_RUN].clear();
                c.h[K_WRITE] = true;
                c.script[K_WRITE].clear();
                Step hold;
                hold.code = RC_HOLD;
                c.script[K_WRITE].push_back(hold);
                for (int k : {K_READ, K_TEST}) {
                        c.h[k] = r.chance(0.6);
                        c.script[k].clear();
                        if (c.h[k])
                                c.script[k] = gen_script(k, true, (int)c.vars.size(), std::max(2, p.ev_cap()));
                }
                ms.init(p);
                std::vector<int> evs;
                for (size_t i = 0; i < p.cmds.size(); i++)
                        if (p.cmds[i].ev)
                                evs.push_back((int)i);
                if (r.chance(0.6))
                        faults_maybe();
                double keep = K.p_valid_args;
                K.p_valid_args = 0.9;
                int rounds = (int)r.range(1, 3);
                for (int k = 0; k < rounds; k++) {
                        bytes line = "AT" + mangle_case(c.name, 0.2) + "=" + gen_args_for(c);
                        for (auto &ch : line)
                                if (ch == '?' || ch == '\n' || ch == 0)
                                        ch = '!';
                        line += r.coin() ? "\r\n" : "\n";
                        in_op(line);
                        op(OP_SVC, (int64_t)line.size() + r.range(0, 12));
                        int nev = (int)r.range(1, 4);
                        for (int e = 0; e < nev; e++) {
                                int who = r.chance(0.7) ? t : evs[r.below(evs.size())];
                                if (r.chance(K.p_cbtrig))
                                        op(OP_TRIGCB, who, r.coin() ? CT_READ : CT_TEST, (int64_t)r.below(2), r.range(0, 6));
                                else
                                        op(OP_TRIG, who, r.coin() ? CT_READ : CT_TEST);
                                op(OP_SVC, r.range(0, 14));
                                if (r.chance(0.4)) {
                                        op(OP_HEXIT, (int64_t)r.below(2));
                                        op(OP_SVC, r.range(0, 10));
                                }
                                if (r.chance(0.2))
                                        faults_maybe();
                        }
                        op(OP_HEXIT, (int64_t)r.below(2));
                        op(OP_SVC, r.range(0, 30));
                        op(OP_QUIESCE, 200000);
                }
                K.p_valid_args = keep;
                op(OP_DRAIN);
        }

        void in_op(const bytes &data)
        {
                Op o;
                o.kind = OP_IN;
                o.data = data;
                p.ops.push_back(o);
        }

        void faults_maybe()
        {
                if (r.coin())
                        rand_rx_mode();
                if (r.coin())
                        rand_tx_mode();
        }

        // ------------------------------------------------------------ C03R: outside the modelled domain, memory safety only
        void robustness_extras()
        {
                p.scribble = true;
                p.observe = r.coin();
                // events on any command, including ones the input addresses at the same time
                std::vector<Op> ops;
                for (auto &o : p.ops) {
                        ops.push_back(o);
                        if (r.chance(0.15)) {
                                Op t;
                                t.kind = OP_TRIG;
                                t.a = (int64_t)r.below(p.cmds.size());
                                t.b = r.coin() ? CT_READ : CT_TEST;
                                ops.push_back(t);
                        }
                        if (o.kind == OP_IN && r.chance(0.2) && !ops.back().data.empty() && ops.back().kind == OP_IN) {
                                bytes &d = ops.back().data;
                                size_t at = r.below(d.size());
                                if (d[at] != '\n')
                                        d[at] = r.coin() ? 0 : (char)r.next();
                        }
                }
                p.ops = ops;
                for (auto &c : p.cmds) {
                        if (c.ev && r.chance(0.3)) {
                                c.disable = false; // reachable event source
                                if (!c.registered && (p.registered_count() + 1 + 3) / 4 <= p.cmd_cap()) {
                                        c.registered = true;
                                        c.group = 0;
                                }
                        }
                        for (int k = 0; k < 4; k++)
                                for (auto &st : c.script[k]) {
                                        if (c.ev && r.chance(0.1))
                                                st.code = RC_HOLD;
                                        if (st.act == A_TRIG)
                                                st.act = A_NONE;
                                }
                }
        }

        // ------------------------------------------------------------ C07: read -> write round trips
        void gen_c07(int qcap, uint64_t idx)
        {
                p.qcap = qcap;
                p.fill = r.next() | 1;
                p.observe = r.coin();
                p.mutex = false;
                p.groups.push_back(GroupSpec());
                int ncmd = (int)r.range(1, 3);
                for (int i = 0; i < ncmd; i++) {
                        CmdSpec c;
                        c.name = std::string("+") + (char)('A' + i) + rand_name(3);
                        c.name = mangle_case(c.name, 0.3);
                        int nv = (int)r.range(1, 6);
                        for (int v = 0; v < nv; v++) {
                                VarSpec vs;
                                vs.type = (int)r.below(5);
                                if (vs.type <= T_HEX) {
                                        static const int sz[3] = {1, 2, 4};
                                        vs.size = sz[r.below(3)];
                                } else
                                        vs.size = r.chance(0.7) ? (int)r.range(1, 10) : (int)r.range(1, 64);
                                vs.access = ACC_RW;
                                vs.named = r.coin();
                                if (vs.named)
                                        vs.name = rand_text(3, false);
                                vs.rcb = r.chance(0.2);
                                vs.wcb = r.chance(0.2);
                                vs.init = rand_value(vs);
                                c.vars.push_back(vs);
                        }
                        c.need_all = r.coin();
                        c.h[K_WRITE] = r.chance(0.3);
                        p.cmds.push_back(c);
                }
                int nev = r.chance(0.5) ? (int)r.range(1, 2) : 0;
                for (int i = 0; i < nev; i++) {
                        CmdSpec c;
                        c.ev = 1;
                        c.registered = false;
                        c.name = "%E" + std::to_string(i);
                        VarSpec vs = gen_var(false);
                        vs.rcb = vs.rcb == 2 ? 1 : vs.rcb;
                        c.vars.push_back(vs);
                        p.cmds.push_back(c);
                }
                // rounds: values first, then the capacity that has to hold the longest text
                struct Round {
                        int cmd;
                        std::vector<bytes> vals;
                };
                std::vector<Round> rounds;
                int nr = (int)r.range(1, 6);
                size_t need = 0;
                for (int k = 0; k < nr; k++) {
                        Round rd;
                        rd.cmd = (int)r.below((uint64_t)ncmd);
                        const CmdSpec &c = p.cmds[(size_t)rd.cmd];
                        std::string text = c.name + "=";
                        for (size_t v = 0; v < c.vars.size(); v++) {
                                const VarSpec &vs = c.vars[v];
                                bytes val = rand_value(vs);
                                if (vs.type <= T_HEX && vs.size <= 2 && r.chance(0.6)) {
                                        // sweep: over many run indices every 8/16-bit pattern is visited
                                        uint64_t x = vs.size == 1 ? (idx + (uint64_t)k * 37 + v * 11) & 0xff : (idx * 7 + (uint64_t)k * 8191 + v * 257) & 0xffff;
                                        for (int b = 0; b < vs.size; b++)
                                                val[(size_t)b] = (char)(x >> (8 * b));
                                }
                                rd.vals.push_back(val);
                                std::string t;
                                fmt_var(vs, val, t);
                                text += t;
                                if (v + 1 < c.vars.size())
                                        text += ",";
                        }
                        need = std::max(need, text.size() + 1);
                        rounds.push_back(rd);
                }
                // exactly holds the longest text (40 %), one byte short of it (10 %: that READ must answer ERROR or,
                // if it prints anything, still round-trip), or slack
                double cx = (double)r.below(1000) / 1000.0;
                int cap = (int)std::max<size_t>(6, cx < 0.4 ? need : cx < 0.5 ? need - 1 : need + (size_t)r.range(1, 24));
                p.shared = r.chance(0.6);
                if (p.shared) {
                        p.buf_size = cap * 2 + (int)r.below(2);
                } else {
                        p.buf_size = cap;
                        p.ubuf_size = (int)r.range(0, 64);
                }
                ms.init(p);
                if (r.chance(K.p_faults))
                        faults_maybe();
                for (auto &rd : rounds) {
                        for (size_t v = 0; v < rd.vals.size(); v++) {
                                Op o;
                                o.kind = OP_SETVAR;
                                o.a = rd.cmd;
                                o.b = (int64_t)v;
                                o.data = rd.vals[v];
                                p.ops.push_back(o);
                        }
                        if (nev && r.chance(0.3))
                                op(OP_TRIG, ncmd + (int)r.below((uint64_t)nev), r.coin() ? CT_READ : CT_TEST);
                        if (nev && r.chance(0.5)) {
                                // the event arrives while the READ line is being parsed / formatted / flushed
                                int span = 8 + (int)p.cmds[(size_t)rd.cmd].name.size() * (ncmd + nev + 1) + 40;
                                op(OP_ROUNDTRIP, rd.cmd, ncmd + (int)r.below((uint64_t)nev) + 1, r.coin() ? CT_READ : CT_TEST, r.range(0, span));
                        } else
                                op(OP_ROUNDTRIP, rd.cmd);
                        if (r.chance(0.3))
                                faults_maybe();
                }
                op(OP_DRAIN);
        }

        // ------------------------------------------------------------ C12: stimuli only at quiescent points
        void gen_ops_c12()
        {
                std::vector<int> evs;
                for (size_t i = 0; i < p.cmds.size(); i++)
                        if (p.cmds[i].ev)
                                evs.push_back((int)i);
                int rounds = (int)r.range(2, 14);
                faults_maybe();
                for (int k = 0; k < rounds; k++) {
                        double x = (double)r.below(1000) / 1000.0;
                        if (x < 0.55) {
                                bytes line = gen_line();
                                if (r.chance(0.5)) {
                                        // deliver in fragments with service calls in between
                                        size_t pos = 0;
                                        while (pos < line.size()) {
                                                size_t n = (size_t)r.range(1, 6);
                                                in_op(line.substr(pos, n));
                                                pos += n;
                                                if (r.chance(0.7))
                                                        op(OP_SVC, r.range(0, 12));
                                        }
                                } else
                                        in_op(line);
                        } else if (x < 0.8 && !evs.empty()) {
                                int burst = (int)r.range(1, p.qcap + 1);
                                for (int b = 0; b < burst; b++)
                                        op(OP_TRIG, evs[r.below(evs.size())], r.coin() ? CT_READ : CT_TEST);
                        } else if (x < 0.87) {
                                op(OP_HEXIT, (int64_t)r.below(2));
                        } else if (x < 0.93) {
                                int ci = (int)r.below(p.cmds.size());
                                if (!p.cmds[(size_t)ci].ev && p.cmds[(size_t)ci].registered)
                                        op(OP_FLAG, 0, ci, (int64_t)r.below(2));
                        } else
                                faults_maybe();
                        op(OP_QUIESCE, 200000);
                }
                op(OP_DRAIN);
        }

        // C12, enumerated part: a small base plan (chosen by idx / 256) and ONE fault whose position is idx % 256:
        // a run of 1..3 refusals starting at the k-th write attempt (k < 160) or at the k-th read of a waiting byte
        void gen_ops_c12_enum(uint64_t variant)
        {
                std::vector<int> evs;
                for (size_t i = 0; i < p.cmds.size(); i++)
                        if (p.cmds[i].ev)
                                evs.push_back((int)i);
                int run = 1 + (int)r.below(3);
                bool trig_first = !evs.empty() && r.chance(0.7);
                int ev = evs.empty() ? 0 : evs[r.below(evs.size())];
                int evt = r.coin() ? CT_READ : CT_TEST;
                bytes l1 = gen_line(), l2 = r.coin() ? gen_line() : bytes();
                int when = (int)r.below(3);
                // everything above is drawn before the variant is used: all variants share the base plan
                if (variant < 160)
                        op(OP_TX_REFUSE, run, r.coin() ? 0 : -1, (int64_t)variant);
                else
                        op(OP_RX_STALL, run, (int64_t)(variant - 160));
                if (trig_first && when == 0)
                        op(OP_TRIG, ev, evt);
                in_op(l1);
                if (trig_first && when == 1) {
                        op(OP_SVC, 3);
                        op(OP_TRIG, ev, evt);
                }
                op(OP_QUIESCE, 200000);
                if (trig_first && when == 2)
                        op(OP_TRIG, ev, evt);
                if (!l2.empty())
                        in_op(l2);
                op(OP_QUIESCE, 200000);
                op(OP_DRAIN);
        }

        // C14, enumerated part: one holding line; the release request is placed after exactly k service calls, for every
        // k (before the hold exists, while it is entered, during it); variants also release through an event handler
        void gen_ops_c14_enum(uint64_t variant)
        {
                // a command whose run handler holds at once, reachable by an unambiguous name
                CmdSpec c;
                c.name = "+HLD";
                c.h[K_RUN] = true;
                Step st;
                st.code = RC_HOLD;
                c.script[K_RUN].push_back(st);
                c.group = 0;
                for (auto &o : p.cmds)
                        if (upper(o.name).compare(0, 4, "+HLD") == 0 || o.implicit)
                                o.disable = true;
                p.cmds.push_back(c);
                p.groups[0].disable = false;
                if ((p.registered_count() + 3) / 4 > p.cmd_cap())
                        p.buf_size += p.shared ? 2 : 1;
                // an event source whose handler releases the hold
                CmdSpec e;
                e.ev = 1;
                e.registered = false;
                e.name = "%REL";
                e.h[K_READ] = true;
                Step es;
                es.code = r.coin() ? RC_HOLD_EXIT_OK : RC_HOLD_EXIT_ERROR;
                e.script[K_READ].push_back(es);
                p.cmds.push_back(e);
                int evidx = (int)p.cmds.size() - 1;
                ms.init(p);
                bool by_event = r.chance(0.3);
                bool twice = r.chance(0.3);
                bytes next = r.coin() ? gen_line() : bytes();
                int status = (int)r.below(2);
                bool crlf = r.coin();
                if (r.chance(0.4))
                        faults_maybe();
                in_op(std::string("AT+HLD") + (crlf ? "\r\n" : "\n") + next);
                op(OP_SVC, (int64_t)variant);
                if (by_event)
                        op(OP_TRIG, evidx, CT_READ);
                else
                        op(OP_HEXIT, status);
                if (twice) {
                        op(OP_SVC, r.range(0, 3));
                        op(OP_HEXIT, 1 - status);
                }
                op(OP_SVC, r.range(0, 40));
                op(OP_DRAIN);
        }

        // C18, enumerated part: one or two lines, cut at every byte position k; everything settles between the two parts,
        // the observer samples cat_is_busy / cat_is_hold after every service call
        void gen_ops_c18_enum(uint64_t variant)
        {
                std::vector<int> evs;
                for (size_t i = 0; i < p.cmds.size(); i++)
                        if (p.cmds[i].ev)
                                evs.push_back((int)i);
                p.observe = true;
                bytes text = gen_line();
                if (r.coin())
                        text += gen_line();
                bool ev_first = !evs.empty() && r.coin();
                int ev = evs.empty() ? 0 : evs[r.below(evs.size())];
                if (r.chance(0.4))
                        faults_maybe();
                size_t k = (size_t)variant;
                if (k > text.size())
                        k = text.size();
                if (ev_first)
                        op(OP_TRIG, ev, r.coin() ? CT_READ : CT_TEST);
                if (k > 0)
                        in_op(text.substr(0, k));
                op(OP_SVCQ, 200000);
                op(OP_SVC, 2);
                if (k < text.size())
                        in_op(text.substr(k));
                op(OP_DRAIN);
        }

        // ------------------------------------------------------------ C20: whole lines, holds released at once
        void gen_ops_c20()
        {
                int nlines = (int)r.range(2, 10);
                faults_maybe();
                bytes batch;
                std::vector<int> c20_evs;
                for (size_t i = 0; i < p.cmds.size(); i++)
                        if (p.cmds[i].ev)
                                c20_evs.push_back((int)i);
                auto flush = [&]() {
                        if (batch.empty())
                                return;
                        in_op(batch);
                        batch.clear();
                        if (r.chance(0.5))
                                op(OP_SVC, r.range(0, 30));
                };
                for (int k = 0; k < nlines; k++) {
                        bytes line = gen_line();
                        // track the model to know whether this line suspends the parser
                        bool holds = false;
                        size_t st = 0;
                        while (st < line.size()) {
                                size_t lf = line.find('\n', st);
                                if (lf == bytes::npos)
                                        break;
                                std::vector<Item> items = simulate_line(ms, line.substr(st, lf - st));
                                for (auto &it : items)
                                        holds |= it.kind == Item::HOLDWAIT;
                                st = lf + 1;
                                if (holds && st < line.size()) {
                                        // keep the suspending line last in its input op
                                        line.resize(st);
                                        break;
                                }
                        }
                        batch += line;
                        if (holds) {
                                flush();
                                op(OP_QUIESCE, 200000);
                                op(OP_HEXIT, (int64_t)r.below(2));
                                op(OP_QUIESCE, 200000);
                        } else if (r.chance(0.5))
                                flush();
                        if (!c20_evs.empty() && r.chance(0.3))
                                op(OP_TRIG, c20_evs[r.below(c20_evs.size())], r.coin() ? CT_READ : CT_TEST);
                        if (batch.empty() && r.chance(0.15)) {
                                int ci = (int)r.below(p.cmds.size());
                                const CmdSpec &c = p.cmds[(size_t)ci];
                                if (!c.vars.empty() && !c.ev) {
                                        op(OP_QUIESCE, 200000);
                                        int vi = (int)r.below(c.vars.size());
                                        Op o;
                                        o.kind = OP_SETVAR;
                                        o.a = ci;
                                        o.b = vi;
                                        o.data = rand_value(c.vars[(size_t)vi]);
                                        p.ops.push_back(o);
                                        ms.vals[(size_t)ci][(size_t)vi] = o.data;
                                        ms.havoc[(size_t)ci][(size_t)vi] = 0;
                                } else if (c.registered && !c.ev) {
                                        op(OP_QUIESCE, 200000);
                                        int val = (int)r.below(2);
                                        op(OP_FLAG, 0, ci, val);
                                        ms.cmd_dis[(size_t)ci] = (char)val;
                                }
                        }
                        if (r.chance(0.1))
                                faults_maybe();
                }
                flush();
                op(OP_DRAIN);
        }

        // ------------------------------------------------------------ C17: application threads around the service thread
        void gen_ops_c17()
        {
                p.mutex = true;
                p.sched = r.next() | 1;
                p.probe_ok = false;
                std::vector<int> evs;
                for (size_t i = 0; i < p.cmds.size(); i++)
                        if (p.cmds[i].ev)
                                evs.push_back((int)i);
                // service thread
                if (r.chance(0.7))
                        faults_maybe();
                int nlines = (int)r.range(0, 5);
                for (int k = 0; k < nlines; k++) {
                        in_op(gen_line());
                        op(OP_SVC, r.range(0, 80));
                        if (r.chance(0.2))
                                faults_maybe();
                }
                op(OP_SVC, r.range(0, 200));
                op(OP_DRAIN);
                // producers
                int nprod = evs.empty() ? 0 : (int)r.range(1, 8);
                for (int t = 1; t <= nprod; t++) {
                        int n = (int)r.range(1, 20);
                        for (int k = 0; k < n; k++) {
                                Op o;
                                o.kind = OP_TRIG;
                                o.thr = t;
                                o.a = evs[(size_t)(t - 1 + (int)r.below(2) * nprod) % evs.size()];
                                o.b = r.coin() ? CT_READ : CT_TEST;
                                o.c = r.chance(0.3) ? 0 : r.range(0, 80); // yields before the call
                                p.ops.push_back(o);
                        }
                }
                // observer
                int nobs = (int)r.range(0, 30);
                for (int k = 0; k < nobs; k++) {
                        Op o;
                        o.kind = OP_QAPI;
                        o.thr = 9;
                        o.a = (int64_t)r.below(3);
                        o.c = r.range(0, 40);
                        p.ops.push_back(o);
                }
                // releaser
                int nrel = (int)r.range(0, 5);
                for (int k = 0; k < nrel; k++) {
                        Op o;
                        o.kind = OP_HEXIT;
                        o.thr = 10;
                        o.a = (int64_t)r.below(2);
                        o.c = r.range(0, 200);
                        p.ops.push_back(o);
                }
        }

        // ------------------------------------------------------------ C10: exhaustive code sequences up to length 6
        static const int C10_TERMS = 10;
        static const uint64_t C10_ENUM = 63 * 10 * 6;
        void force_c10(uint64_t idx)
        {
                static const int terms[C10_TERMS] = {RC_ERROR, RC_DATA_OK, RC_OK, RC_HOLD, RC_HOLD_EXIT_OK, RC_HOLD_EXIT_ERROR, RC_PRINT_CMD_LIST_OK, -2, 9, 1000};
                int slot = (int)(idx % 6); // 0..3 command FSM kinds, 4/5 event FSM read/test
                uint64_t rest = idx / 6;
                int term = terms[rest % C10_TERMS];
                rest /= C10_TERMS;
                // prefixes over {NEXT, DATA_NEXT} of length 0..5: 63 of them
                int len = 0;
                uint64_t base = 0;
                while (rest >= base + (1ULL << len)) {
                        base += 1ULL << len;
                        len++;
                }
                uint64_t bits = rest - base;
                std::vector<Step> sc;
                for (int i = 0; i < len; i++) {
                        Step st;
                        st.code = (bits >> i) & 1 ? RC_DATA_NEXT : RC_NEXT;
                        sc.push_back(st);
                }
                Step last;
                last.code = term;
                sc.push_back(last);
                bool ev = slot >= 4;
                int kind = ev ? (slot == 4 ? K_READ : K_TEST) : slot;
                if (ev && term == RC_HOLD)
                        sc.back().code = RC_ERROR; // HOLD from an event handler is outside every property
                // bump a variable in every step so that a stale response buffer would be visible
                CmdSpec c;
                c.name = ev ? "%SEQ" : "+SEQ";
                int nv = (int)r.range(0, 3);
                for (int v = 0; v < nv; v++) {
                        VarSpec vs = gen_var(false);
                        if (vs.type <= T_HEX && vs.size != 1 && vs.size != 2 && vs.size != 4) {
                                vs.size = 2;
                                vs.init = rand_value(vs);
                        }
                        c.vars.push_back(vs);
                }
                if (nv > 0)
                        for (auto &st : sc)
                                if (r.coin()) {
                                        st.act = A_BUMP;
                                        st.a = (int)r.below((uint64_t)nv);
                                }
                c.h[kind] = true;
                c.script[kind] = sc;
                if (ev) {
                        c.ev = 1;
                        c.registered = false;
                        p.cmds.push_back(c);
                        ms.init(p);
                        // trigger it first thing
                        Op o;
                        o.kind = OP_TRIG;
                        o.a = (int64_t)p.cmds.size() - 1;
                        o.b = kind == K_READ ? CT_READ : CT_TEST;
                        p.ops.insert(p.ops.begin(), o);
                } else {
                        c.group = 0;
                        // make it reachable: unique name, not shadowed
                        for (auto &o : p.cmds)
                                if (upper(o.name).compare(0, 4, "+SEQ") == 0 || o.implicit)
                                        o.disable = true;
                        p.cmds.insert(p.cmds.begin(), c);
                        p.groups[0].disable = false;
                        // indices shifted by one: remap ops and script actions
                        for (auto &o : p.ops) {
                                if (o.kind == OP_TRIG || o.kind == OP_QBUF || o.kind == OP_SETVAR || o.kind == OP_ROUNDTRIP || o.kind == OP_TRIGCB || o.kind == OP_PUMP)
                                        o.a++;
                                else if (o.kind == OP_FLAG && o.a == 0)
                                        o.b++;
                        }
                        for (auto &cc : p.cmds)
                                for (int k = 0; k < 4; k++)
                                        for (auto &st : cc.script[k])
                                                if (st.act == A_TRIG)
                                                        st.a++;
                        static const char *suffix[4] = {"=", "?", "", "=?"};
                        bytes line = "AT+SEQ" + std::string(suffix[kind]);
                        if (kind == K_WRITE && nv > 0) {
                                for (int v = 0; v < nv; v++) {
                                        if (v)
                                                line += ",";
                                        line += gen_arg(c.vars[(size_t)v], true);
                                }
                        }
                        line += r.coin() ? "\r\n" : "\n";
                        Op o;
                        o.kind = OP_IN;
                        o.data = line;
                        p.ops.insert(p.ops.begin(), o);
                        if ((p.registered_count() + 3) / 4 > p.cmd_cap()) {
                                if (p.shared)
                                        p.buf_size += 2;
                                else
                                        p.buf_size += 1;
                        }
                        ms.init(p);
                }
        }
};

void knobs_for(const std::string &prop, Knobs &K, Rng &r)
{
        // swarm: every run also perturbs the knobs a little
        if (prop == "C01") {
                K.p_cut_crlf = 0.2;
                K.p_garbage = 0.2;
                K.p_overlong = 0.1;
                K.p_blank = 0.1;
                K.p_noise = 0.15;
                K.max_cmds = 12;
                K.p_nul = 0.1;
                K.p_swarm = 0.001;
        } else if (prop == "C02") {
                K.max_cmds = 16;
                K.p_many_cmds = 0.08;
                K.p_vars = 0.3;
                K.p_garbage = 0.02;
                K.p_events = 0.3;
                K.p_implicit = 0.15;
                K.p_swarm = 0.004;
        } else if (prop == "C04" || prop == "C05") {
                K.p_vars = 1.0;
                K.max_vars = 6;
                K.p_valid_args = 0.45;
                K.p_garbage = 0.02;
                K.p_events = 0.3;
                K.max_cmds = 5;
                K.p_disable = 0.03;
                K.p_only_test = 0.03;
        } else if (prop == "C06") {
                K.p_overlong = 0.35;
                K.p_small_cap = 0.6;
                K.p_handler = 0.8;
                K.p_nul = 0.1;
                K.max_cmds = 5;
        } else if (prop == "C09") {
                K.p_disable = 0.3;
                K.p_group_disable = 0.25;
                K.p_only_test = 0.2;
                K.p_flag_ops = 0.5;
                K.max_cmds = 10;
                K.p_swarm = 0.001;
        } else if (prop == "C10") {
                K.p_handler = 0.9;
                K.p_script = 0.95;
                K.p_badcode = 0.2;
                K.p_varcb = 0.4;
                K.p_varcb_fail = 0.3;
                K.max_cmds = 4;
                K.p_events = 0.8;
        } else if (prop == "C11" || prop == "C12") {
                if (prop == "C12")
                        K.p_ev_release = 0.0; // a release by an event handler races with the hold it releases: its effect
                                              // legitimately depends on the relative progress of the two state machines
                K.p_events = 0.95;
                K.p_faults = 0.95;
                K.p_handler = 0.7;
                K.max_cmds = 5;
                K.p_garbage = 0.03;
        } else if (prop == "C13") {
                K.p_long_run = 0.15; // long trigger histories: ring indices wrap many laps
                K.p_pump = 0.03;
                K.p_marathon = 0.0005;
                K.p_events = 1.0;
                K.ev_cmds_max = 4;
                K.max_lines = 6;
                K.max_cmds = 4;
        } else if (prop == "C14") {
                K.p_hold = 0.5;
                K.p_handler = 0.9;
                K.p_script = 0.9;
                K.p_hexit_ops = 0.4;
                K.p_events = 0.8;
                K.max_cmds = 4;
        } else if (prop == "C15" || prop == "C18") {
                K.p_cut_crlf = 0.3;
                K.p_crlf = 0.6;
                K.p_probe_ok = 1.0;
                K.p_events = 0.9;
                K.p_hold = 0.15;
                K.max_cmds = 5;
        } else if (prop == "C19") {
                K.p_vars = 0.8;
                K.max_vars = 8;
                K.p_small_cap = 0.5;
                K.p_group_disable = 0.25;
                K.p_disable = 0.2;
                K.p_only_test = 0.2;
                K.p_badcode = 0.3;
        } else if (prop == "C20") {
                K.p_ev_release = 0.0; // the isolated-lines twin has no event traffic: releases come from the plan only
                K.p_events = 0.4; // without events the complete byte streams of the sequence and of the isolated lines are compared
                K.p_trig_act = 0.05;
                K.max_cmds = 8;
        } else if (prop == "C16") {
                K.p_mutex = 1.0;
                K.p_long_run = 0.0;
                K.min_lines = 1;
                K.max_lines = 3;
                K.max_svc_gap = 10;
                K.p_phases = 0.0;
                K.p_faults = 0.4;
                K.max_cmds = 4;
                K.p_many_cmds = 0;
                K.p_events = 0.8;
                K.p_hold = 0.2;
                K.p_handler = 0.7;
                K.p_probe_ok = 0.2;
                K.p_small_cap = 0.6;
                K.p_large_cap = 0.0;
                K.p_hexit_ops = 0.3;
        } else if (prop == "C17") {
                K.p_mutex = 1.0;
                K.p_events = 1.0;
                K.ev_cmds_max = 8;
                K.max_cmds = 4;
                K.p_many_cmds = 0;
                K.p_hold = 0.15;
                K.p_handler = 0.6;
                K.p_long_run = 0;
        } else if (prop == "C03") {
                K.p_small_cap = 0.6;
                K.p_overlong = 0.25;
                K.p_nul = 0.2;
                K.p_garbage = 0.15;
                K.p_unsupported_size = 0.05;
        }
        // argument text beyond 64 KiB: where over-long arguments and numeric/string parsing are the subject
        if (prop == "C04" || prop == "C05" || prop == "C06")
                K.p_giant = 0.0015;
        else if (prop != "C01" && prop != "C03")
                K.p_giant = 0.0;
        if (prop == "C16" || prop == "C17" || prop == "C12" || prop == "C20" || prop == "C07" || prop == "C08")
                K.p_pump = 0.0;
        if (prop == "C15" || prop == "C18" || prop == "C13" || prop == "C11" || prop == "C14" || prop == "C10" || prop == "C03")
                K.p_cbtrig = 0.15;
        (void)r;
}

} // namespace

bool g_gen_thorough = false;

uint64_t gen_enum_count(const std::string &prop) { return prop == "C10" ? 63 * 10 * 6 : prop == "C12" ? 256 * 100 : prop == "C14" ? 128 * 100 : prop == "C18" ? 64 * 200 : 0; }

Plan gen_plan(const std::string &prop, uint64_t seed, uint64_t idx, int qcap)
{
        // every profile explores its own plans: the profile name is part of the seed
        uint64_t ph = 1469598103934665603ULL;
        for (char ch : prop)
                ph = (ph ^ (unsigned char)ch) * 1099511628211ULL;
        // C12: the first C12_ENUM indices enumerate single faults over base plans (256 variants per base plan)
        bool c12e = prop == "C12" && idx < gen_enum_count(prop);
        bool c14e = prop == "C14" && idx < gen_enum_count(prop);
        bool c18e = prop == "C18" && idx < gen_enum_count(prop);
        uint64_t base = c12e ? idx / 256 : c14e ? idx / 128 : c18e ? idx / 64 : 0;
        Gen g(mix_seed(seed ^ ph, ((c12e || c14e || c18e) ? base + (1ULL << 40) : idx) * 2654435761ULL + 17));
        knobs_for(prop, g.K, g.r);
        if (g_gen_thorough && prop != "C16" && prop != "C17") {
                // deeper, not only more: longer line/event histories, larger tables, more phases
                g.K.p_long_run = std::min(0.25, g.K.p_long_run * 4 + 0.02);
                g.K.max_lines += 6;
                g.K.p_many_cmds = std::min(0.2, g.K.p_many_cmds * 2);
                g.K.p_phases = std::min(0.6, g.K.p_phases * 1.5);
                g.K.max_svc_gap += 40;
        }
        g.p.prop = prop;
        g.p.seed = seed;
        g.p.idx = idx;
        if (prop == "C03" && idx % 3 == 2)
                g.p.prop = "C03R";
        if (prop == "C07") {
                g.gen_c07(qcap, idx);
        } else {
                g.gen_world(qcap);
                if (c12e)
                        g.gen_ops_c12_enum(idx % 256);
                else if (c14e)
                        g.gen_ops_c14_enum(idx % 128);
                else if (c18e)
                        g.gen_ops_c18_enum(idx % 64);
                else if ((prop == "C18" || prop == "C14" || prop == "C13") && mix_seed(seed ^ ph, idx * 7919 + 3) % 12 == 0)
                        g.gen_ops_hold_own();
                else if (prop == "C12")
                        g.gen_ops_c12();
                else if (prop == "C20")
                        g.gen_ops_c20();
                else if (prop == "C17" && idx % 400 == 399) {
                        // one interleaving among the others: everything from one thread, but more than 65536 accepted events
                        g.force_marathon = true;
                        g.gen_ops();
                } else if (prop == "C17" || (prop == "C13" && idx % 20 == 7))
                        g.gen_ops_c17(); // C13: one plan in twenty has its triggers issued by other threads
                
                else
                        g.gen_ops();
                if (prop == "C10" && idx < gen_enum_count(prop))
                        g.force_c10(idx);
                if (g.p.prop == "C03R")
                        g.robustness_extras();
        }
        std::string why;
        if (!plan_valid(g.p, why)) {
                // generator bug: make it loud but deterministic
                fprintf(stderr, "generator produced invalid plan (%s) prop=%s seed=%llu idx=%llu\n", why.c_str(), prop.c_str(), (unsigned long long)seed, (unsigned long long)idx);
                g.p.ops.clear();
                Op o;
                o.kind = OP_DRAIN;
                g.p.ops.push_back(o);
        }
        return g.p;
}

Plan plan_eager(const Plan &p)
{
        Plan q = p;
        q.ops.clear();
        for (auto &o : p.ops)
                if (o.kind != OP_RX_STALL && o.kind != OP_RX_PAT && o.kind != OP_TX_REFUSE && o.kind != OP_TX_PAT && o.kind != OP_RX_READY && o.kind != OP_TX_OK)
                        q.ops.push_back(o);
        return q;
}
