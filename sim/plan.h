// Plan = world configuration + explicit operation list. A plan is a pure value: it is
// produced by a generator from (seed, run index, profile), printed to a replay file, parsed
// back, shrunk, and executed by the engine. Nothing in here depends on cat.h.
#pragma once
#include "util.h"

// cat_return_state values (mirrors cat.h; checked by a static_assert in engine.cc)
enum { RC_ERROR = -1, RC_DATA_OK = 0, RC_DATA_NEXT = 1, RC_NEXT = 2, RC_OK = 3, RC_HOLD = 4, RC_HOLD_EXIT_OK = 5, RC_HOLD_EXIT_ERROR = 6, RC_PRINT_CMD_LIST_OK = 7 };
// cat_var_type
enum { T_INT = 0, T_UINT = 1, T_HEX = 2, T_BUFHEX = 3, T_STRING = 4 };
// cat_var_access
enum { ACC_RW = 0, ACC_RO = 1, ACC_WO = 2 };
// handler kinds
enum { K_WRITE = 0, K_READ = 1, K_RUN = 2, K_TEST = 3 };
// cat_cmd_type
enum { CT_NONE = -1, CT_RUN = 0, CT_READ = 1, CT_WRITE = 2, CT_TEST = 3 };
// fsm
enum { FSM_CMD = 0, FSM_EV = 1 };

enum StepAct { A_NONE = 0, A_SETTEXT, A_APPEND, A_BUMP, A_TRIG, A_HEXIT };

struct Step {
        int code = RC_OK;  // value returned by the handler
        int act = A_NONE; // what the handler does before returning
        int a = 0, b = 0; // A_BUMP: var index; A_TRIG: command index, type; A_HEXIT: status (0 ok, else error)
        bytes text;       // A_SETTEXT / A_APPEND
};

struct VarSpec {
        int type = T_INT;
        int size = 1;
        int access = ACC_RW;
        bool named = false;
        std::string name;
        int rcb = 0; // var->read: 0 absent, 1 present returning 0, 2 present returning non-zero
        int wcb = 0; // var->write: same
        bytes init;  // exactly `size` bytes
};

struct CmdSpec {
        std::string name;
        bool has_desc = false;
        std::string desc;
        bool h[4] = {false, false, false, false}; // which handlers exist, by K_*
        std::vector<Step> script[4];                // per handler kind; restarts after every terminal code
        std::vector<VarSpec> vars;
        bool var_null = false; // var pointer NULL (var_num forced 0)
        bool need_all = false, only_test = false, disable = false, implicit = false;
        bool registered = true; // false: exists only as an event source, not in any group
        int group = 0;
        int ev = 0; // 1: used as event source (generator guarantees its output does not depend on line timing)
};

struct GroupSpec {
        bool disable = false;
        bool named = false;
        std::string name;
};

enum OpKind {
        OP_IN,
        OP_SVC,
        OP_SVCQ,
        OP_RX_READY,
        OP_RX_STALL,
        OP_RX_PAT,
        OP_TX_OK,
        OP_TX_REFUSE,
        OP_TX_PAT,
        OP_TRIG,
        OP_HEXIT,
        OP_QBUF,
        OP_FLAG,
        OP_PROBE,
        OP_FRESH,
        OP_ROUNDTRIP,
        OP_SETVAR,
        OP_DRAIN,
        OP_QUIESCE,
        OP_QAPI, // a: 0 cat_is_busy, 1 cat_is_hold, 2 cat_is_unsolicited_buffer_full
        OP_TRIGCB, // a = cmd, b = type, c = 0 inside an io read callback / 1 inside an io write callback, d = callbacks of that kind to skip first
        OP_PUMP, // a = cmd, b = type, c = rounds, d = triggers per round: (d triggers, then service until no event is waiting) x c
};

struct Op {
        int kind = OP_SVC;
        int64_t a = 0, b = 0, c = 0, d = 0;
        bytes data;
        int thr = 0; // C17: thread that executes the op (0 = service thread)
        // OP_IN: data
        // OP_SVC: a = count          OP_SVCQ: a = max calls
        // OP_RX_STALL: a = attempts  OP_RX_PAT: a = sub-seed, b = permille, c = max burst
        // OP_TX_REFUSE: a = attempts, b = code   OP_TX_PAT: a = sub-seed, b = permille, c = max burst, d = code
        // OP_TRIG: a = cmd, b = type (CT_READ/CT_TEST)
        // OP_HEXIT: a = status (0 = OK else error)
        // OP_QBUF: a = cmd, b = type (CT_NONE allowed)
        // OP_FLAG: a = 0 command / 1 group, b = index, c = value; applied only when no line is in progress
        // OP_ROUNDTRIP: a = cmd
        // OP_SETVAR: a = cmd, b = var, data = new contents; applied only when no line is in progress
};

struct Plan {
        std::string prop = "-"; // profile that generated it
        uint64_t seed = 0, idx = 0;
        // world
        int qcap = 1;
        bool shared = true;
        int buf_size = 64;
        int ubuf_size = 0; // used when !shared
        bool mutex = false;
        uint64_t fill = 1;   // seed for initial memory fill
        bool observe = true; // query cat_is_busy / cat_is_hold / ... after every step
        bool probe_ok = false; // after every cat_service()==OK run a quiescence probe
        bool scribble = false; // refused reads scribble on *ch (C03 only)
        int lockfail = -1, unlockfail = -1; // C16: index of the lock / unlock call that fails
        uint64_t sched = 0; // C17: seed of the thread scheduler (0 = single-threaded plan)
        bool other = false; // a second, unrelated parser instance is serviced in between (same process, own descriptor and io)
        std::vector<GroupSpec> groups;
        std::vector<CmdSpec> cmds;
        std::vector<Op> ops;

        int cmd_cap() const { return shared ? buf_size / 2 : buf_size; }
        int ev_cap() const { return shared ? buf_size / 2 : ubuf_size; }
        int registered_count() const
        {
                int n = 0;
                for (auto &c : cmds)
                        n += c.registered;
                return n;
        }
};

std::string plan_print(const Plan &p);
bool plan_parse(const std::string &text, Plan &p, std::string &err);
bool plan_load(const std::string &path, Plan &p, std::string &err);
bool plan_save(const std::string &path, const Plan &p);
// domain check: false when the plan is outside the supported domain (shrinker candidates)
bool plan_valid(const Plan &p, std::string &why);
std::string op_print(const Op &o);
