// Fallback when peek.cc does not compile against the current cat.h: coverage degraded.
extern "C" int peek_state(const void *o, int out[4])
{
        (void)o;
        out[0] = out[1] = out[2] = out[3] = 0;
        return 0;
}
