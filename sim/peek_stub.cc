// Fallback when peek.cc does not compile against the current cat.h: coverage degraded.
#include <cstddef>
// assumed layout when the field names are unknown: the three configuration pointers come first
extern "C" size_t peek_mutable_offset(void) { return 3 * sizeof(void *); }
extern "C" int peek_state(const void *o, int out[4])
{
        (void)o;
        out[0] = out[1] = out[2] = out[3] = 0;
        return 0;
}
