#include "plan.h"
#include "model.h"
#include <fstream>
#include <map>
#include <sstream>

static std::string script_print(const std::vector<Step> &s)
{
        if (s.empty())
                return "-";
        std::string r;
        for (size_t i = 0; i < s.size(); i++) {
                if (i)
                        r += ";";
                r += std::to_string(s[i].code);
                switch (s[i].act) {
                case A_NONE:
                        break;
                case A_SETTEXT:
                        r += "/s:" + hexenc(s[i].text);
                        break;
                case A_APPEND:
                        r += "/a:" + hexenc(s[i].text);
                        break;
                case A_BUMP:
                        r += "/b:" + std::to_string(s[i].a);
                        break;
                case A_TRIG:
                        r += "/t:" + std::to_string(s[i].a) + ":" + std::to_string(s[i].b);
                        break;
                case A_HEXIT:
                        r += "/x:" + std::to_string(s[i].a);
                        break;
                }
        }
        return r;
}

static std::vector<std::string> split(const std::string &s, char sep)
{
        std::vector<std::string> r;
        std::string cur;
        for (char c : s) {
                if (c == sep) {
                        r.push_back(cur);
                        cur.clear();
                } else
                        cur += c;
        }
        r.push_back(cur);
        return r;
}

static bool script_parse(const std::string &t, std::vector<Step> &s)
{
        s.clear();
        if (t == "-")
                return true;
        for (auto &e : split(t, ';')) {
                Step st;
                size_t sl = e.find('/');
                try {
                        st.code = std::stoi(e.substr(0, sl));
                        if (sl != std::string::npos) {
                                auto parts = split(e.substr(sl + 1), ':');
                                if (parts.size() < 2)
                                        return false;
                                char k = parts[0].size() ? parts[0][0] : '?';
                                switch (k) {
                                case 's':
                                        st.act = A_SETTEXT;
                                        if (!hexdec(parts[1], st.text))
                                                return false;
                                        break;
                                case 'a':
                                        st.act = A_APPEND;
                                        if (!hexdec(parts[1], st.text))
                                                return false;
                                        break;
                                case 'b':
                                        st.act = A_BUMP;
                                        st.a = std::stoi(parts[1]);
                                        break;
                                case 't':
                                        if (parts.size() < 3)
                                                return false;
                                        st.act = A_TRIG;
                                        st.a = std::stoi(parts[1]);
                                        st.b = std::stoi(parts[2]);
                                        break;
                                case 'x':
                                        st.act = A_HEXIT;
                                        st.a = std::stoi(parts[1]);
                                        break;
                                default:
                                        return false;
                                }
                        }
                } catch (...) {
                        return false;
                }
                s.push_back(st);
        }
        return true;
}

std::string op_print(const Op &o)
{
        std::ostringstream s;
        switch (o.kind) {
        case OP_IN:
                s << "in " << hexenc(o.data);
                break;
        case OP_SVC:
                s << "svc " << o.a;
                break;
        case OP_SVCQ:
                s << "svcq " << o.a;
                break;
        case OP_RX_READY:
                s << "rx ready";
                break;
        case OP_RX_STALL:
                s << "rx stall " << o.a;
                if (o.b)
                        s << " " << o.b; // deliveries before the stall starts
                break;
        case OP_RX_PAT:
                s << "rx pat " << o.a << " " << o.b << " " << o.c;
                break;
        case OP_TX_OK:
                s << "tx ok";
                break;
        case OP_TX_REFUSE:
                s << "tx refuse " << o.a << " " << o.b;
                if (o.c)
                        s << " " << o.c; // accepted writes before the refusals start
                break;
        case OP_TX_PAT:
                s << "tx pat " << o.a << " " << o.b << " " << o.c << " " << o.d;
                break;
        case OP_TRIG:
                s << "trig " << o.a << " " << o.b;
                break;
        case OP_HEXIT:
                s << "hexit " << o.a;
                break;
        case OP_QBUF:
                s << "qbuf " << o.a << " " << o.b;
                break;
        case OP_FLAG:
                s << "flag " << (o.a ? "g" : "c") << " " << o.b << " " << o.c;
                break;
        case OP_PROBE:
                s << "probe";
                break;
        case OP_FRESH:
                s << "fresh";
                break;
        case OP_ROUNDTRIP:
                s << "roundtrip " << o.a;
                if (o.b)
                        s << " " << o.b << " " << o.c << " " << o.d; // event (command+1, type) triggered d service calls into the READ
                break;
        case OP_SETVAR:
                s << "setvar " << o.a << " " << o.b << " " << hexenc(o.data);
                break;
        case OP_DRAIN:
                s << "drain";
                break;
        case OP_QUIESCE:
                s << "quiesce " << o.a;
                break;
        case OP_QAPI:
                s << "qapi " << o.a;
                break;
        case OP_TRIGCB:
                s << "trigcb " << o.a << " " << o.b << " " << o.c << " " << o.d;
                break;
        case OP_PUMP:
                s << "pump " << o.a << " " << o.b << " " << o.c << " " << o.d;
                break;
        }
        if (o.thr)
                return "@" + std::to_string(o.thr) + " " + s.str() + " ~" + std::to_string(o.c); // ~n: yields before the call
        return s.str();
}

std::string plan_print(const Plan &p)
{
        std::ostringstream s;
        s << "cat-plan v1\n";
        s << "meta prop=" << p.prop << " seed=" << p.seed << " idx=" << p.idx << "\n";
        s << "world qcap=" << p.qcap << " shared=" << p.shared << " buf=" << p.buf_size << " ubuf=" << p.ubuf_size << " mutex=" << p.mutex << " fill=" << p.fill
          << " observe=" << p.observe << " probeok=" << p.probe_ok << " scribble=" << p.scribble << " lockfail=" << p.lockfail << " unlockfail=" << p.unlockfail << " sched=" << p.sched << " other=" << p.other << "\n";
        for (auto &g : p.groups)
                s << "group disable=" << g.disable << " name=" << (g.named ? hexenc(g.name) + "." : std::string("~")) << "\n";
        for (auto &c : p.cmds) {
                s << "cmd name=" << hexenc(c.name) << ". desc=" << (c.has_desc ? hexenc(c.desc) + "." : std::string("~")) << " h=" << c.h[0] << c.h[1] << c.h[2] << c.h[3]
                  << " needall=" << c.need_all << " onlytest=" << c.only_test << " disable=" << c.disable << " implicit=" << c.implicit << " reg=" << c.registered
                  << " group=" << c.group << " varnull=" << c.var_null << " ev=" << c.ev;
                static const char *sn[4] = {"sw", "sr", "sx", "st"};
                for (int k = 0; k < 4; k++)
                        s << " " << sn[k] << "=" << script_print(c.script[k]);
                s << "\n";
                for (auto &v : c.vars)
                        s << " var type=" << v.type << " size=" << v.size << " acc=" << v.access << " name=" << (v.named ? hexenc(v.name) + "." : std::string("~"))
                          << " rcb=" << v.rcb << " wcb=" << v.wcb << " init=" << hexenc(v.init) << "\n";
        }
        s << "ops\n";
        for (auto &o : p.ops)
                s << op_print(o) << "\n";
        s << "end\n";
        return s.str();
}

typedef std::map<std::string, std::string> KV;

static KV kv_parse(std::istringstream &ls)
{
        KV m;
        std::string tok;
        while (ls >> tok) {
                size_t eq = tok.find('=');
                if (eq == std::string::npos)
                        continue;
                m[tok.substr(0, eq)] = tok.substr(eq + 1);
        }
        return m;
}

static long long kv_int(const KV &m, const char *k, long long def)
{
        auto it = m.find(k);
        if (it == m.end())
                return def;
        try {
                return std::stoll(it->second);
        } catch (...) {
                return def;
        }
}

// optional string encoding: "~" = absent, "<hex>." = present ("-." = present and empty)
static bool optstr(const KV &m, const char *k, bool &present, std::string &out)
{
        auto it = m.find(k);
        present = false;
        out.clear();
        if (it == m.end() || it->second == "~")
                return true;
        std::string v = it->second;
        if (v.empty() || v.back() != '.')
                return false;
        v.pop_back();
        present = true;
        return hexdec(v, out);
}

bool plan_parse(const std::string &text, Plan &p, std::string &err)
{
        p = Plan();
        std::istringstream in(text);
        std::string line;
        bool in_ops = false;
        int ln = 0;
        if (!std::getline(in, line) || line != "cat-plan v1") {
                err = "bad magic";
                return false;
        }
        while (std::getline(in, line)) {
                ln++;
                if (line.empty() || line[0] == '#')
                        continue;
                std::istringstream ls(line);
                std::string w;
                ls >> w;
                auto fail = [&](const char *m) {
                        err = std::string(m) + " at line " + std::to_string(ln + 1) + ": " + line;
                        return false;
                };
                if (!in_ops) {
                        if (w == "meta") {
                                KV m = kv_parse(ls);
                                p.prop = m.count("prop") ? m["prop"] : "-";
                                p.seed = (uint64_t)std::stoull(m.count("seed") ? m["seed"] : "0");
                                p.idx = (uint64_t)std::stoull(m.count("idx") ? m["idx"] : "0");
                        } else if (w == "world") {
                                KV m = kv_parse(ls);
                                p.qcap = (int)kv_int(m, "qcap", 1);
                                p.shared = kv_int(m, "shared", 1);
                                p.buf_size = (int)kv_int(m, "buf", 64);
                                p.ubuf_size = (int)kv_int(m, "ubuf", 0);
                                p.mutex = kv_int(m, "mutex", 0);
                                p.fill = (uint64_t)std::stoull(m.count("fill") ? m["fill"] : "1");
                                p.observe = kv_int(m, "observe", 1);
                                p.probe_ok = kv_int(m, "probeok", 0);
                                p.scribble = kv_int(m, "scribble", 0);
                                p.lockfail = (int)kv_int(m, "lockfail", -1);
                                p.unlockfail = (int)kv_int(m, "unlockfail", -1);
                                p.sched = (uint64_t)std::stoull(m.count("sched") ? m["sched"] : "0");
                                p.other = kv_int(m, "other", 0);
                        } else if (w == "group") {
                                KV m = kv_parse(ls);
                                GroupSpec g;
                                g.disable = kv_int(m, "disable", 0);
                                if (!optstr(m, "name", g.named, g.name))
                                        return fail("bad group name");
                                p.groups.push_back(g);
                        } else if (w == "cmd") {
                                KV m = kv_parse(ls);
                                CmdSpec c;
                                bool pr;
                                if (!optstr(m, "name", pr, c.name) || !pr)
                                        return fail("bad cmd name");
                                if (!optstr(m, "desc", c.has_desc, c.desc))
                                        return fail("bad desc");
                                std::string h = m.count("h") ? m["h"] : "0000";
                                if (h.size() != 4)
                                        return fail("bad h");
                                for (int k = 0; k < 4; k++)
                                        c.h[k] = h[k] == '1';
                                c.need_all = kv_int(m, "needall", 0);
                                c.only_test = kv_int(m, "onlytest", 0);
                                c.disable = kv_int(m, "disable", 0);
                                c.implicit = kv_int(m, "implicit", 0);
                                c.registered = kv_int(m, "reg", 1);
                                c.group = (int)kv_int(m, "group", 0);
                                c.var_null = kv_int(m, "varnull", 0);
                                c.ev = (int)kv_int(m, "ev", 0);
                                static const char *sn[4] = {"sw", "sr", "sx", "st"};
                                for (int k = 0; k < 4; k++)
                                        if (m.count(sn[k]) && !script_parse(m[sn[k]], c.script[k]))
                                                return fail("bad script");
                                p.cmds.push_back(c);
                        } else if (w == "var") {
                                if (p.cmds.empty())
                                        return fail("var before cmd");
                                KV m = kv_parse(ls);
                                VarSpec v;
                                v.type = (int)kv_int(m, "type", 0);
                                v.size = (int)kv_int(m, "size", 1);
                                v.access = (int)kv_int(m, "acc", 0);
                                if (!optstr(m, "name", v.named, v.name))
                                        return fail("bad var name");
                                v.rcb = (int)kv_int(m, "rcb", 0);
                                v.wcb = (int)kv_int(m, "wcb", 0);
                                if (!hexdec(m.count("init") ? m["init"] : "-", v.init))
                                        return fail("bad init");
                                v.init.resize((size_t)v.size, 0);
                                p.cmds.back().vars.push_back(v);
                        } else if (w == "ops") {
                                in_ops = true;
                        } else
                                return fail("unknown header line");
                        continue;
                }
                if (w == "end")
                        break;
                Op o;
                std::string x;
                if (!w.empty() && w[0] == '@') {
                        o.thr = atoi(w.c_str() + 1);
                        if (o.thr < 0 || o.thr > 11)
                                return fail("bad thread");
                        w.clear();
                        ls >> w;
                }
                try {
                        if (w == "in") {
                                o.kind = OP_IN;
                                ls >> x;
                                if (!hexdec(x, o.data))
                                        return fail("bad hex");
                        } else if (w == "svc") {
                                o.kind = OP_SVC;
                                ls >> o.a;
                        } else if (w == "svcq") {
                                o.kind = OP_SVCQ;
                                ls >> o.a;
                        } else if (w == "rx") {
                                ls >> x;
                                if (x == "ready")
                                        o.kind = OP_RX_READY;
                                else if (x == "stall") {
                                        o.kind = OP_RX_STALL;
                                        ls >> o.a;
                                        if (!(ls >> o.b))
                                                o.b = 0;
                                } else if (x == "pat") {
                                        o.kind = OP_RX_PAT;
                                        ls >> o.a >> o.b >> o.c;
                                } else
                                        return fail("bad rx");
                        } else if (w == "tx") {
                                ls >> x;
                                if (x == "ok")
                                        o.kind = OP_TX_OK;
                                else if (x == "refuse") {
                                        o.kind = OP_TX_REFUSE;
                                        ls >> o.a >> o.b;
                                        if (!(ls >> o.c))
                                                o.c = 0;
                                } else if (x == "pat") {
                                        o.kind = OP_TX_PAT;
                                        ls >> o.a >> o.b >> o.c >> o.d;
                                } else
                                        return fail("bad tx");
                        } else if (w == "trig") {
                                o.kind = OP_TRIG;
                                ls >> o.a >> o.b;
                        } else if (w == "hexit") {
                                o.kind = OP_HEXIT;
                                ls >> o.a;
                        } else if (w == "qbuf") {
                                o.kind = OP_QBUF;
                                ls >> o.a >> o.b;
                        } else if (w == "flag") {
                                o.kind = OP_FLAG;
                                ls >> x >> o.b >> o.c;
                                o.a = (x == "g");
                        } else if (w == "probe") {
                                o.kind = OP_PROBE;
                        } else if (w == "fresh") {
                                o.kind = OP_FRESH;
                        } else if (w == "roundtrip") {
                                o.kind = OP_ROUNDTRIP;
                                ls >> o.a;
                                if (!(ls >> o.b >> o.c >> o.d))
                                        o.b = o.c = o.d = 0;
                        } else if (w == "setvar") {
                                o.kind = OP_SETVAR;
                                ls >> o.a >> o.b >> x;
                                if (!hexdec(x, o.data))
                                        return fail("bad hex");
                        } else if (w == "drain") {
                                o.kind = OP_DRAIN;
                        } else if (w == "quiesce") {
                                o.kind = OP_QUIESCE;
                                ls >> o.a;
                        } else if (w == "qapi") {
                                o.kind = OP_QAPI;
                                ls >> o.a;
                        } else if (w == "trigcb") {
                                o.kind = OP_TRIGCB;
                                ls >> o.a >> o.b >> o.c >> o.d;
                        } else if (w == "pump") {
                                o.kind = OP_PUMP;
                                ls >> o.a >> o.b >> o.c >> o.d;
                        } else
                                return fail("unknown op");
                } catch (...) {
                        return fail("bad op");
                }
                if (o.thr) {
                        std::string t;
                        ls.clear();
                        while (ls >> t)
                                if (t.size() > 1 && t[0] == '~')
                                        o.c = atoll(t.c_str() + 1);
                }
                p.ops.push_back(o);
        }
        std::string why;
        if (!plan_valid(p, why)) {
                err = "plan outside domain: " + why;
                return false;
        }
        return true;
}

bool plan_load(const std::string &path, Plan &p, std::string &err)
{
        std::ifstream f(path);
        if (!f) {
                err = "cannot open " + path;
                return false;
        }
        std::stringstream ss;
        ss << f.rdbuf();
        return plan_parse(ss.str(), p, err);
}

bool plan_save(const std::string &path, const Plan &p)
{
        std::ofstream f(path);
        if (!f)
                return false;
        f << plan_print(p);
        return (bool)f;
}

bool plan_valid(const Plan &p, std::string &why)
{
        auto bad = [&](const char *m) {
                why = m;
                return false;
        };
        if (p.qcap != 1 && p.qcap != 2 && p.qcap != 3 && p.qcap != 8)
                return bad("qcap");
        if (p.groups.empty())
                return bad("no group");
        if (p.cmd_cap() < 6)
                return bad("command buffer capacity < 6");
        if (p.buf_size > 1 << 18 || p.ubuf_size > 1 << 16 || p.ubuf_size < 0)
                return bad("buffer size");
        int nreg = p.registered_count();
        if (nreg < 1)
                return bad("no registered command");
        if (p.cmd_cap() * 4 < nreg)
                return bad("capacity < ceil(commands/4)");
        bool input_has_qmark = false;
        for (auto &o : p.ops)
                if (o.kind == OP_IN && o.data.find('?') != std::string::npos)
                        input_has_qmark = true;
        std::vector<int> per_group(p.groups.size(), 0);
        bool empty_ev = false, empty_cmd = false;
        for (size_t i = 0; i < p.cmds.size(); i++) {
                const CmdSpec &c = p.cmds[i];
                if (c.registered) {
                        if (c.group < 0 || c.group >= (int)p.groups.size())
                                return bad("group index");
                        per_group[(size_t)c.group]++;
                }
                if (c.name.find('\0') != std::string::npos)
                        return bad("NUL in name");
                if (c.has_desc && c.desc.find('\0') != std::string::npos)
                        return bad("NUL in desc");
                if (c.implicit && (c.h[K_READ] || c.h[K_RUN] || c.h[K_TEST]))
                        return bad("implicit write with read/run/test handler");
                if (c.var_null && !c.vars.empty())
                        return bad("varnull with vars");
                // an event source may be addressed by the input only if no line can ask it for a READ or TEST response
                // (no '?' anywhere in the input): the command side then emits nothing but result codes
                if (c.ev && c.registered && !c.disable && p.prop != "C03R" && input_has_qmark)
                        return bad("event source reachable from the input (units would not be attributable)");
                // ... and only if no line can change what its events print (the model formats an event when it is accepted)
                if (c.ev && c.registered && !c.disable && p.prop != "C03R")
                        for (auto &v : c.vars)
                                if (v.access != ACC_RO)
                                        return bad("reachable event source with a writable variable (its event text would depend on when the line is parsed)");
                for (auto &v : c.vars) {
                        if (v.type < 0 || v.type > 4)
                                return bad("var type");
                        if (v.size < 1 || v.size > 64)
                                return bad("data_size");
                        if (v.access < 0 || v.access > 2)
                                return bad("access");
                        if ((int)v.init.size() != v.size)
                                return bad("init size");
                        if (v.named && v.name.find('\0') != std::string::npos)
                                return bad("NUL in var name");
                }
                for (int k = 0; k < 4; k++)
                        for (auto &s : c.script[k]) {
                                if (s.act == A_BUMP && (s.a < 0 || s.a >= (int)c.vars.size()))
                                        return bad("bump index");
                                if (s.act == A_TRIG && (s.a < 0 || s.a >= (int)p.cmds.size() || (s.b != CT_READ && s.b != CT_TEST)))
                                        return bad("trig in script");
                                if (s.act == A_TRIG && !p.cmds[(size_t)s.a].ev && p.prop != "C03R")
                                        return bad("script trigger on a command that is not an event source");
                                if (s.act == A_TRIG && c.ev)
                                        return bad("event handler triggering events (unbounded)");
                                if (s.code == RC_HOLD && c.ev && (k == K_READ || k == K_TEST) && p.prop != "C03R")
                                        return bad("HOLD returned by an event source (outside every property)");
                                if ((s.act == A_SETTEXT || s.act == A_APPEND) && (k == K_WRITE || k == K_RUN))
                                        return bad("text action in write/run script");
                                if (s.text.find('\0') != std::string::npos)
                                        return bad("NUL in script text");
                                if (s.act == A_SETTEXT && s.text.empty()) {
                                        (c.ev ? empty_ev : empty_cmd) = true;
                                        continue;
                                }
                                if ((s.act == A_SETTEXT || s.act == A_APPEND) && p.prop != "C03R" &&
                                    (s.text.size() < 2 || s.text[0] != '~' || (s.text[1] == 'e') != (c.ev != 0)))
                                        return bad("handler text must carry its producer marker (~e / ~c): units have to be attributable");
                        }
        }
        if (empty_ev && empty_cmd && p.prop != "C03R")
                return bad("empty handler texts in both producers (units would not be attributable)");
        for (int n : per_group)
                if (n < 1)
                        return bad("empty group");
        if (p.prop != "C03R")
                for (auto &a : p.cmds)
                        for (auto &b : p.cmds)
                                if (a.ev && !b.ev && a.name == b.name)
                                        return bad("event source with the same name as a line-addressable command (units would not be attributable)");
        // an event TEST response embeds a newline whose style (LF / CRLF) depends on what the command
        // side is doing at that moment; keep away from the one capacity at which that decides the fit
        if (p.prop != "C03R")
                for (size_t i = 0; i < p.cmds.size(); i++)
                        if (p.cmds[i].ev && p.cmds[i].has_desc) {
                                std::string t = model_test_text(p, (int)i, "\n");
                                size_t before_desc = t.size() - p.cmds[i].desc.size();
                                if ((int)t.size() == p.ev_cap() - 1 || (int)before_desc == p.ev_cap() - 1)
                                        return bad("event TEST text exactly at capacity (newline style would decide the fit)");
                        }
        if ((p.prop == "C12" || p.prop == "C20") && (p.ops.empty() || p.ops.back().kind != OP_DRAIN))
                return bad("twin-run plans must end with a drain");
        for (auto &o : p.ops) {
                switch (o.kind) {
                case OP_TRIG:
                        if (o.a < 0 || o.a >= (int64_t)p.cmds.size() || (o.b != CT_READ && o.b != CT_TEST))
                                return bad("trig op");
                        if (!p.cmds[(size_t)o.a].ev && p.prop != "C03R")
                                return bad("trigger on a command that is not an event source");
                        break;
                case OP_QBUF:
                        if (o.a < 0 || o.a >= (int64_t)p.cmds.size() || o.b < CT_NONE || o.b > CT_TEST)
                                return bad("qbuf op");
                        break;
                case OP_FLAG:
                        if (o.a == 0 && (o.b < 0 || o.b >= (int64_t)p.cmds.size()))
                                return bad("flag cmd");
                        if (o.a == 0 && p.cmds[(size_t)o.b].ev)
                                return bad("flag flip on an event source");
                        if (o.a == 1 && (o.b < 0 || o.b >= (int64_t)p.groups.size()))
                                return bad("flag group");
                        break;
                case OP_TRIGCB:
                        if (o.a < 0 || o.a >= (int64_t)p.cmds.size() || (o.b != CT_READ && o.b != CT_TEST) || (o.c != 0 && o.c != 1) || o.d < 0 || o.d > 100000)
                                return bad("trigcb op");
                        if (!p.cmds[(size_t)o.a].ev && p.prop != "C03R")
                                return bad("trigger on a command that is not an event source");
                        if ((p.prop == "C12" || p.prop == "C20"))
                                return bad("callback-placed trigger in a twin-run plan (its position depends on the schedule)");
                        break;
                case OP_PUMP:
                        if (o.a < 0 || o.a >= (int64_t)p.cmds.size() || (o.b != CT_READ && o.b != CT_TEST) || o.c < 0 || o.c > 200000 || o.d < 1 || o.d > 16)
                                return bad("pump op");
                        break;
                case OP_ROUNDTRIP:
                        if (o.a < 0 || o.a >= (int64_t)p.cmds.size())
                                return bad("roundtrip op");
                        if (o.b && (o.b < 1 || o.b > (int64_t)p.cmds.size() || !p.cmds[(size_t)o.b - 1].ev || (o.c != CT_READ && o.c != CT_TEST) || o.d < 0 || o.d > 100000))
                                return bad("roundtrip event");
                        break;
                case OP_SETVAR:
                        if (o.a < 0 || o.a >= (int64_t)p.cmds.size() || o.b < 0 || o.b >= (int64_t)p.cmds[(size_t)o.a].vars.size() ||
                            (int)o.data.size() != p.cmds[(size_t)o.a].vars[(size_t)o.b].size)
                                return bad("setvar op");
                        break;
                case OP_SVC:
                case OP_SVCQ:
                case OP_RX_STALL:
                case OP_TX_REFUSE:
                case OP_QUIESCE:
                        if (o.a < 0 || o.a > 10000000)
                                return bad("count");
                        break;
                default:
                        break;
                }
                if (o.thr != 0 && (p.sched == 0 || !p.mutex))
                        return bad("threaded op in a plan without scheduler seed / mutex");
                if (o.thr != 0 && o.kind != OP_TRIG && o.kind != OP_HEXIT && o.kind != OP_QAPI)
                        return bad("op kind not allowed outside the service thread");
        }
        if (p.sched != 0 && (p.lockfail >= 0 || p.unlockfail >= 0))
                return bad("lock faults in a threaded plan");
        return true;
}
