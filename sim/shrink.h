// Plan minimisation: ddmin over the operation list, then structural shrinks of the world.
#pragma once
#include "plan.h"
#include <functional>

typedef std::function<bool(const Plan &)> FailPred; // true: candidate still fails the same way
Plan shrink_plan(const Plan &p, const FailPred &pred, int max_reruns, int *reruns_out);
