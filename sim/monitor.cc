#include "monitor.h"
#include <algorithm>

enum { ST_OK = 0, ST_BUSY = 1, ST_HOLD = 2, ST_NOT_HOLD = -6, ST_FULL = -5, ST_MUTEX_LOCK = -3, ST_MUTEX_UNLOCK = -2 };

Monitor::Monitor(const Plan &p, MemView *mv) : plan(p), mem(mv) { m.init(p); }

void Monitor::fail(const std::string &prop, const std::string &rule, const std::string &detail, bool hard)
{
        if (viol.set())
                return;
        if (!hard && (desync || off))
                return;
        if (prop == "U") {
                desync = true;
                st.unspecified_desync++;
                return;
        }
        viol.prop = prop;
        viol.rule = rule;
        viol.detail = detail;
        viol.at_svc = svc_calls;
}

static bool prop_in(const std::string &list, const std::string &one)
{
        size_t pos = 0;
        while (pos <= list.size()) {
                size_t c = list.find(',', pos);
                if (list.substr(pos, c == std::string::npos ? std::string::npos : c - pos) == one)
                        return true;
                if (c == std::string::npos)
                        break;
                pos = c + 1;
        }
        return false;
}

bool Monitor::fail_soft(const std::string &prop, const std::string &rule, const std::string &detail)
{
        if (viol.set() || desync || off)
                return true;
        if (!focus.empty() && focus != "any" && !prop_in(prop, focus)) {
                if (!soft_other.set()) {
                        soft_other.prop = prop;
                        soft_other.rule = rule;
                        soft_other.detail = detail;
                        soft_other.at_svc = svc_calls;
                }
                return true;
        }
        fail(prop, rule, detail);
        return false;
}

bool Monitor::partial_line() const
{
        for (char c : cur_line)
                if (c != '\r')
                        return true;
        return false;
}

static std::string item_desc(const Item &it)
{
        switch (it.kind) {
        case Item::H:
                return "handler(cmd=" + std::to_string(it.cmd) + ",kind=" + std::to_string(it.hkind) + ",fsm=" + std::to_string(it.fsm) + ",data=\"" + vis(it.data) + "\")";
        case Item::V:
                return "varcb(cmd=" + std::to_string(it.cmd) + ",var=" + std::to_string(it.var) + ",kind=" + std::to_string(it.vkind) + ",wsize=" + std::to_string(it.wsize) + ")";
        case Item::U: {
                std::string r = "unit(";
                for (size_t i = 0; i < it.alts.size(); i++)
                        r += (i ? "|\"" : "\"") + vis(it.alts[i]) + "\"";
                return r + ")";
        }
        case Item::HOLDWAIT:
                return "hold-release";
        }
        return "?";
}

std::string Monitor::head_desc(const std::deque<Item> &q) const
{
        if (q.empty())
                return "nothing";
        return std::string(q.front().rule) + ":" + item_desc(q.front());
}

const char *Monitor::ctx_tag(int fsm) const { return fsm == FSM_EV ? "C13,C17" : last_line_tag.c_str(); }

// ------------------------------------------------------------------ input side

void Monitor::on_read(bool ok, unsigned char byte)
{
        if (stray && ok)
                classify_stray();
        if (dead())
                return;
        if (!ok) {
                st.reads_refused++;
                return;
        }
        stimulus_since_ok = true;
        svc_ok_now = false;
        if (!cmdq.empty()) {
                bool h = hold_phase != 0;
                for (auto &it : cmdq)
                        h |= it.kind == Item::HOLDWAIT;
                fail(h ? "C14" : "C01", h ? "input-consumed-during-hold" : "input-consumed-before-result-code-complete",
                     "byte 0x" + hexenc(bytes(1, (char)byte)) + " read while still expecting " + head_desc(cmdq));
                return;
        }
        if (byte != '\n') {
                cur_line += (char)byte;
                return;
        }
        bytes line = cur_line;
        cur_line.clear();
        LineInfo li;
        std::vector<Item> items = simulate_line(m, line, &li);
        if (li.blank) {
                st.blank_lines++;
                return;
        }
        st.lines++;
        last_line_tag = li.verdict_tag;
        if (li.verdict_tag[0] == 'C') {
                int t = atoi(li.verdict_tag + 1);
                if (t >= 1 && t <= 20)
                        st.tags[t]++;
        }
        if (li.type == CT_WRITE) {
                int cap = plan.cmd_cap();
                if ((int)li.args.size() == cap - 1)
                        st.args_at_cap_m1++;
                if ((int)li.args.size() == cap)
                        st.args_at_cap++;
                size_t run = 0, best = 0;
                for (char c : li.args) {
                        run = (c >= '0' && c <= '9') ? run + 1 : 0;
                        best = std::max(best, run);
                }
                if (best > 20)
                        st.long_numbers++;
        }
        if (!items.empty() && items.front().rule == std::string("ambiguous-abbreviation") && line.find('=') != bytes::npos)
                st.ambiguous_eq++;
        for (auto &it : items)
                cmdq.push_back(it);
        if (cmdq.empty())
                line_complete();
}

// ------------------------------------------------------------------ queues

void Monitor::consume_cmd_item()
{
        Item it = cmdq.front();
        cmdq.pop_front();
        if (it.kind == Item::H && it.enters_hold) {
                hold_phase = 1;
                req_ok = req_err = false;
                st.holds++;
        }
        if (it.kind == Item::U && it.is_result) {
                st.result_codes++;
        }
        if (cmdq.empty())
                line_complete();
}

void Monitor::consume_ev_item()
{
        Item it = evq.front();
        uint64_t id = (uint64_t)evq_owner.front();
        evq.pop_front();
        evq_owner.pop_front();
        // everything accepted before this event has been popped and is finished
        while (!evs.empty() && ev_base < id) {
                last_finished_ev_cmd = evs.front().cmd;
                last_finished_ev_type = evs.front().type;
                evs.pop_front();
                ev_base++;
                st.events_finished++;
        }
        if (id + 1 > popped_certain)
                popped_certain = id + 1;
        if (popped_possible < popped_certain)
                popped_possible = popped_certain;
        if (!evs.empty() && ev_base == id) {
                EvRec &r = evs.front();
                r.remaining--;
                if (r.remaining == 0) {
                        last_finished_ev_cmd = r.cmd;
                        last_finished_ev_type = r.type;
                        evs.pop_front();
                        ev_base++;
                        st.events_finished++;
                }
        }
        if (it.kind == Item::H && it.release != 0 && hold_phase != 0) {
                st.releases_handler++;
                release_request(it.release, hold_phase == 1);
        }
        if (evq.empty())
                want_compare_ev = true; // done at the end of this service call, after the handler has returned
}

void Monitor::line_complete()
{
        in_list = false;
        want_compare_cmd = true; // done at the end of this service call
}

void Monitor::deferred_compares()
{
        if (want_compare_cmd && cmdq.empty())
                compare_vars(false);
        want_compare_cmd = false;
        if (want_compare_ev && evq.empty()) {
                bool all_silent = true;
                for (auto &r : evs)
                        all_silent &= r.total == 0;
                if (all_silent)
                        compare_vars(true);
        }
        want_compare_ev = false;
}

void Monitor::compare_vars(bool ev_side)
{
        if (dead() || !mem)
                return;
        for (size_t c = 0; c < plan.cmds.size(); c++) {
                const CmdSpec &cs = plan.cmds[c];
                if ((cs.ev != 0) != ev_side)
                        continue;
                for (size_t v = 0; v < cs.vars.size(); v++) {
                        bytes real = mem->var_bytes((int)c, (int)v);
                        st.var_compares++;
                        if (m.havoc[c][v]) {
                                m.havoc[c][v] = 0;
                                m.vals[c][v] = real;
                                continue;
                        }
                        if (real == m.vals[c][v])
                                continue;
                        const VarSpec &vs = cs.vars[v];
                        std::string tag;
                        if (vs.access == ACC_RO)
                                tag = "C08";
                        else if (!ev_side && (last_line_tag == "C06" || last_line_tag == "C09" || last_line_tag == "C02" || last_line_tag == "C01"))
                                tag = last_line_tag;
                        else
                                tag = (vs.type == T_BUFHEX || vs.type == T_STRING) ? "C05" : "C04";
                        fail(tag, vs.access == ACC_RO ? "read-only-variable-modified" : "variable-value-differs-from-model",
                             "cmd " + std::to_string(c) + " (" + vis(cs.name) + ") var " + std::to_string(v) + ": memory=" + hexenc(real) + " model=" + hexenc(m.vals[c][v]));
                        return;
                }
        }
}

// ------------------------------------------------------------------ callbacks

static bytes strip_cr_before_lf(const bytes &s);

void Monitor::on_handler(int cmd, int kind, int fsm, const bytes &data, size_t size, size_t extra)
{
        matched_step = -2;
        if (dead())
                return;
        st.handler_calls++;
        bytes &tr = fsm == FSM_EV ? ev_handlers : cmd_handlers;
        {
                // event side: the newline embedded in a TEST text may be LF or CRLF (rule 2): normalise
                bytes nd = fsm == FSM_EV ? strip_cr_before_lf(data) : data;
                tr += "H " + std::to_string(cmd) + " " + std::to_string(kind) + " " + std::to_string(nd.size()) + " " + std::to_string(extra) + " " + hexenc(nd) + "\n";
        }
        std::deque<Item> &q = fsm == FSM_EV ? evq : cmdq;
        const CmdSpec &cs = plan.cmds[(size_t)cmd];
        std::string what = "handler kind " + std::to_string(kind) + " of cmd " + std::to_string(cmd) + " (" + vis(cs.name) + ") called by fsm " + std::to_string(fsm) + " with \"" +
                           vis(data) + "\"";
        if (q.empty() || q.front().kind != Item::H || q.front().cmd != cmd || q.front().hkind != kind) {
                std::string tag, rule;
                if (fsm == FSM_CMD && m.disabled(cmd)) {
                        tag = "C09";
                        rule = "handler-of-disabled-command";
                } else if (fsm == FSM_CMD && cs.only_test && kind != K_TEST) {
                        tag = "C09";
                        rule = "handler-of-test-only-command";
                } else if (fsm == FSM_EV && !evq_owner.empty() && (uint64_t)evq_owner.front() >= ev_base && (uint64_t)evq_owner.front() - ev_base < evs.size() &&
                           (evs[(size_t)((uint64_t)evq_owner.front() - ev_base)].cmd != cmd || (evs[(size_t)((uint64_t)evq_owner.front() - ev_base)].type == CT_READ) != (kind == K_READ))) {
                        // the event being delivered is not the one at the head of the FIFO of accepted events
                        tag = "C13,C17";
                        rule = "event-delivered-out-of-order";
                } else if (!q.empty() && q.front().kind == Item::H) {
                        tag = "C02";
                        rule = "wrong-handler";
                } else if (!q.empty()) {
                        tag = q.front().tag;
                        rule = "unexpected-handler-call";
                } else {
                        tag = ctx_tag(fsm);
                        rule = "handler-call-with-nothing-pending";
                }
                fail(tag, rule, what + "; expected " + head_desc(q));
                return;
        }
        const Item &it = q.front();
        bool ok = true;
        if (kind == K_WRITE)
                ok = data == it.data && size == it.data.size() && (int)extra == it.args_num;
        else if ((kind == K_READ || kind == K_TEST) && fsm == FSM_EV)
                ok = strip_cr_before_lf(data) == it.data && size == data.size() && (int)extra == it.maxsize; // embedded newline may be CRLF (rule 2)
        else if (kind == K_READ || kind == K_TEST)
                ok = data == it.data && size == it.data.size() && (int)extra == it.maxsize;
        if (!ok) {
                if (!fail_soft(it.tag, it.rule,
                               what + " size=" + std::to_string(size) + " extra=" + std::to_string(extra) + "; expected \"" + vis(it.data) + "\" size=" +
                                   std::to_string(it.data.size()) + " extra=" + std::to_string(kind == K_WRITE ? it.args_num : it.maxsize)))
                        return;
        }
        matched_step = it.step;
        if (fsm == FSM_EV)
                consume_ev_item();
        else
                consume_cmd_item();
}

static bytes strip_cr_before_lf(const bytes &s)
{
        bytes r;
        for (size_t i = 0; i < s.size(); i++)
                if (!(s[i] == '\r' && i + 1 < s.size() && s[i + 1] == '\n'))
                        r += s[i];
        return r;
}

// The unit an event handler asks to emit is "the current response buffer": take it from what the
// buffer really holds after the handler returned (its embedded newline style is not fixed, rule 2).
void Monitor::on_handler_done(int fsm, const bytes &after)
{
        if (dead() || fsm != FSM_EV || evq.empty())
                return;
        Item &it = evq.front();
        if (it.kind == Item::U && (it.rule == std::string("handler-data-ok") || it.rule == std::string("handler-data-next"))) {
                bytes want = "\n" + strip_cr_before_lf(after) + "\n";
                if (strip_cr_before_lf(it.alts[0]) != want)
                        it.alts[0] = want;
        }
}

void Monitor::on_varcb(int cmd, int var, int vkind, size_t wsize)
{
        if (dead())
                return;
        st.var_callbacks++;
        auto match = [&](const std::deque<Item> &q, bool strict) {
                if (q.empty() || q.front().kind != Item::V)
                        return false;
                const Item &it = q.front();
                if (it.cmd != cmd || it.var != var || it.vkind != vkind)
                        return false;
                return !strict || vkind == 0 || it.wsize == (int)wsize;
        };
        std::string line = "V " + std::to_string(cmd) + " " + std::to_string(var) + " " + std::to_string(vkind) + " " + std::to_string(wsize) + "\n";
        if (match(cmdq, true)) {
                cmd_handlers += line;
                consume_cmd_item();
                return;
        }
        if (match(evq, true)) {
                ev_handlers += line;
                consume_ev_item();
                return;
        }
        const CmdSpec &cs = plan.cmds[(size_t)cmd];
        std::string what = "var callback kind " + std::to_string(vkind) + " cmd " + std::to_string(cmd) + " (" + vis(cs.name) + ") var " + std::to_string(var) + " write_size " +
                           std::to_string(wsize);
        if (match(cmdq, false)) {
                fail(cmdq.front().tag, "write-size", what + "; expected write_size " + std::to_string(cmdq.front().wsize));
                return;
        }
        std::string tag;
        if (cs.registered && m.disabled(cmd) && !cs.ev)
                tag = "C09";
        else if (cs.ev && !evq.empty())
                tag = evq.front().tag;
        else if (!cmdq.empty())
                tag = cmdq.front().tag;
        else
                tag = cs.ev ? "C13,C17" : last_line_tag;
        fail(tag, "unexpected-variable-callback", what + "; command side expects " + head_desc(cmdq) + ", event side expects " + head_desc(evq));
}

// ------------------------------------------------------------------ output side

void Monitor::start_cands(unsigned char b)
{
        (void)b;
        cands.clear();
        for (int p = 0; p < 2; p++) {
                std::deque<Item> &q = p == 0 ? cmdq : evq;
                cand_alts[p].clear();
                cand_flex[p] = false;
                if (q.empty())
                        continue;
                const Item &it = q.front();
                if (it.kind == Item::U) {
                        cand_alts[p] = it.alts;
                        cand_flex[p] = it.flex;
                } else if (it.kind == Item::HOLDWAIT && hold_phase == 2) {
                        const std::string nl = it.data; // newline style of the held line
                        if (req_ok)
                                cand_alts[p].push_back(nl + "OK" + nl);
                        if (req_err)
                                cand_alts[p].push_back(nl + "ERROR" + nl);
                }
                for (size_t a = 0; a < cand_alts[p].size(); a++)
                        cands.push_back(Cand{p, a, 0, false});
        }
        if (!cand_alts[0].empty() && !cand_alts[1].empty())
                st.both_want_output++;
}

void Monitor::on_write(unsigned char byte, bool accepted)
{
        if (viol.set() || desync || off)
                return;
        if (!accepted) {
                st.writes_refused++;
                return;
        }
        if (stray) {
                // keep collecting until new stimulus arrives (next successful read / accepted trigger), the
                // run ends, or enough has been seen: a second result code may follow other stray units
                cur_unit += (char)byte;
                if (cur_unit.size() > 600)
                        classify_stray();
                return;
        }
        bool fresh = cands.empty();
        if (fresh) {
                cur_unit.clear();
                start_cands(byte);
        }
        cur_unit += (char)byte;
        std::vector<Cand> prev = cands, next;
        for (auto c : cands) {
                const bytes &pat = cand_alts[c.prod][c.alt];
                char e = pat[c.off];
                if (cand_flex[c.prod] && e == '\n' && !c.cr && byte == '\r') {
                        c.cr = true;
                        next.push_back(c);
                } else if ((char)byte == e) {
                        c.off++;
                        c.cr = false;
                        next.push_back(c);
                }
        }
        if (next.empty()) {
                if (prev.empty()) {
                        // nothing may be emitted now
                        std::string tag, rule;
                        if (!cmdq.empty() && cmdq.front().kind == Item::HOLDWAIT) {
                                tag = "C14";
                                rule = "output-for-held-command-before-release";
                        } else if (!cmdq.empty()) {
                                tag = cmdq.front().tag;
                                rule = "output-before-expected-callback";
                        } else if (!evq.empty()) {
                                tag = evq.front().tag;
                                rule = "output-before-expected-callback";
                        } else {
                                // nothing at all is pending: collect the stray unit, then classify it
                                stray = true;
                                return;
                        }
                        fail(tag, rule, "byte 0x" + hexenc(bytes(1, (char)byte)) + "; command side expects " + head_desc(cmdq) + ", event side expects " + head_desc(evq));
                        return;
                }
                // mismatch inside / at the start of a unit
                const std::deque<Item> &q = prev[0].prod == 0 ? cmdq : evq;
                const Item &it = q.front();
                bool mid = false;
                for (auto &c : prev)
                        mid |= c.off > 1;
                bool nlish = byte == '\n' || byte == '\r';
                std::string tag = it.tag, rule = "unit-content-mismatch";
                // only the style of a newline differs (CR missing or superfluous) in a command unit
                bool style_only = nlish && prev[0].prod == 0;
                for (auto &c : prev) {
                        char e = cand_alts[c.prod][c.alt][c.off];
                        style_only &= (e == '\r' || e == '\n') && e != (char)byte;
                }
                if (style_only) {
                        tag = "C20";
                        rule = "line-ending-does-not-mirror-request";
                } else if (it.kind == Item::HOLDWAIT) {
                        tag = "C14";
                        rule = "wrong-result-code-after-release";
                } else if (mid && nlish) {
                        // (when the other producer owes the result code of a released hold, the intruding bytes are that code's)
                        const std::deque<Item> &oq = prev[0].prod == 0 ? evq : cmdq;
                        tag = (!oq.empty() && oq.front().kind == Item::HOLDWAIT) ? "C11,C14" : "C11";
                        rule = "unit-broken-by-newline";
                } else if (it.is_result) {
                        rule = "wrong-result-code";
                        // the other well-formed result code is only a wrong verdict; anything else means the line did
                        // not get exactly one proper result code (C01 as well)
                        bool other_code = false;
                        for (const char *alt : {"\nOK\n", "\nERROR\n", "\r\nOK\r\n", "\r\nERROR\r\n"})
                                other_code |= std::string(alt).compare(0, cur_unit.size(), cur_unit) == 0;
                        if (!other_code && tag.find("C01") == std::string::npos)
                                tag += ",C01";
                }
                fail(tag, rule, "emitted so far \"" + vis(cur_unit) + "\" while expecting " + head_desc(q) + (prev.size() > 1 || evq.empty() || cmdq.empty() ? "" : " (other producer expects " + head_desc(prev[0].prod == 0 ? evq : cmdq) + ")"));
                return;
        }
        cands = next;
        // completion: prefer the command producer when both complete at once
        for (int p = 0; p < 2; p++) {
                for (auto &c : cands) {
                        if (c.prod != p || c.off != cand_alts[p][c.alt].size())
                                continue;
                        st.units++;
                        if (p == 0) {
                                cmd_units += cur_unit;
                                cmd_units += (char)0x1e;
                                const Item &it = cmdq.front();
                                if (it.kind == Item::HOLDWAIT)
                                        hold_phase = 0;
                                if (it.kind == Item::U && it.rule == std::string("cmd-list-line")) {
                                        in_list = true;
                                        st.list_lines++;
                                }
                                if (it.is_result || it.kind == Item::HOLDWAIT) {
                                        if (cur_unit.find("ERROR") != bytes::npos)
                                                st.lines_error++;
                                        else
                                                st.lines_ok++;
                                }
                                cands.clear();
                                consume_cmd_item();
                        } else {
                                for (char ch : cur_unit)
                                        if (ch != '\r')
                                                ev_units += ch;
                                ev_units += (char)0x1e;
                                if (in_list && !cmdq.empty())
                                        st.ev_unit_between_list_lines++;
                                if (hold_phase == 1)
                                        st.ev_unit_during_hold++;
                                cands.clear();
                                consume_ev_item();
                        }
                        return;
                }
        }
}

// ------------------------------------------------------------------ service / API

void Monitor::classify_stray()
{
        if (!stray)
                return;
        stray = false;
        // split what was collected into newline-delimited pieces; is one of them a result code?
        bool has_result = false;
        bytes piece;
        for (char ch : cur_unit + "\n") {
                if (ch == '\n' || ch == '\r') {
                        if (piece == "OK" || piece == "ERROR")
                                has_result = true;
                        piece.clear();
                } else
                        piece += ch;
        }
        bytes pl;
        for (char ch : cur_unit)
                if (ch != '\n' && ch != '\r')
                        pl += ch;
        if (has_result || (!pl.empty() && (std::string("ERROR").compare(0, pl.size(), pl) == 0 || std::string("OK").compare(0, pl.size(), pl) == 0)))
                fail("C01", "result-code-without-pending-line", "\"" + vis(cur_unit) + "\" emitted although no complete, unanswered command line is pending" +
                                                                      (partial_line() ? " (partial line so far: \"" + vis(cur_line) + "\")" : ""));
        else if (accepted > 0)
                fail("C13,C17,C11", "unit-with-no-pending-event", "\"" + vis(cur_unit) + "\" emitted although every accepted event has been delivered and no line is pending");
        else
                fail("C11", "output-with-nothing-pending", "\"" + vis(cur_unit) + "\" emitted although nothing is pending");
}

void Monitor::on_service_begin()
{
        if (dead())
                return;
        // the event machine runs first in a service call and may pop one event if it is idle; a trigger made
        // from a command handler later in the same call already sees the ring after that pop
        // (events are processed in FIFO order and finished ones leave evs: the one in progress is always the front)
        bool in_progress = !evs.empty() && evs.front().total > 0 && evs.front().remaining < evs.front().total && evs.front().remaining > 0;
        if (in_progress || popped_possible >= accepted)
                return;
        // events that end without any observable effect may all be consumed in one call (an implementation is free
        // to loop over them); at most one event with observable processing can start per call
        for (uint64_t id = popped_possible; id < accepted; id++) {
                popped_possible = id + 1;
                size_t k = (size_t)(id - ev_base);
                bool silent = id >= ev_base && k < evs.size() && evs[k].total == 0;
                if (!silent)
                        break;
        }
}

void Monitor::on_service_end(int status)
{
        svc_calls++;
        if (dead())
                return;
        deferred_compares();
        if (dead())
                return;
        svc_ok_now = status == ST_OK;
        if (status == ST_OK) {
                if (!cmdq.empty() || !evq.empty() || !cands.empty()) {
                        // verdict deferred to the end of the run: if the pending work is never done it is also a lost
                        // unit / missing result code, not only a premature OK
                        if (deferred_ok.empty())
                                deferred_ok = "cat_service returned OK (service call " + std::to_string(svc_calls) + ") while command side expects " + head_desc(cmdq) +
                                              ", event side expects " + head_desc(evq) + (cands.empty() ? "" : ", unit partially emitted: \"" + vis(cur_unit) + "\"");
                        last_svc_ok = false;
                        return;
                }
                // quiescent: every accepted event has been popped and is finished
                while (!evs.empty()) {
                        last_finished_ev_cmd = evs.front().cmd;
                        last_finished_ev_type = -2; // the event machine is idle: nothing is held any more
                        evs.pop_front();
                        ev_base++;
                        st.events_finished++;
                }
                popped_certain = popped_possible = accepted;
                ev_quiet = true;
                last_svc_ok = true;
                stimulus_since_ok = false;
                compare_vars(true);
        } else {
                last_svc_ok = false;
        }
}

void Monitor::on_trigger(int cmd, int type, int status, int full_before)
{
        if (stray && status == ST_OK)
                classify_stray();
        if (dead())
                return;
        if (status == ST_MUTEX_LOCK)
                return;
        stimulus_since_ok = true;
        svc_ok_now = false;
        bool acc;
        if (status == ST_OK)
                acc = true;
        else if (status == ST_FULL)
                acc = false;
        else if (status == ST_MUTEX_UNLOCK && (full_before == ST_OK || full_before == ST_FULL))
                acc = full_before == ST_OK; // body executed, its result was replaced by the unlock error
        else {
                fail("C13", "trigger-unexpected-status", "cat_trigger_unsolicited_event returned " + std::to_string(status));
                return;
        }
        uint64_t hi = accepted - popped_certain, lo = accepted - popped_possible;
        uint64_t cap = (uint64_t)plan.qcap;
        std::string ctx = " (cmd " + std::to_string(cmd) + ", waiting events between " + std::to_string(lo) + " and " + std::to_string(hi) + ", capacity " + std::to_string(cap) + ")";
        if (hi < cap)
                st.trig_must_accept++;
        else if (lo >= cap)
                st.trig_must_reject++;
        else
                st.trig_either++;
        if (status != ST_MUTEX_UNLOCK) {
                if (hi < cap && !acc) {
                        fail("C13", "trigger-rejected-with-room", "BUFFER_FULL although fewer than capacity events are waiting" + ctx);
                        return;
                }
                if (lo >= cap && acc) {
                        fail("C13", "trigger-accepted-beyond-capacity", "OK although capacity events are waiting" + ctx);
                        return;
                }
                if ((full_before == ST_OK || full_before == ST_FULL) && (full_before == ST_FULL) != !acc) {
                        fail("C13", "full-query-mispredicts-trigger", "cat_is_unsolicited_buffer_full returned " + std::to_string(full_before) + " but the trigger returned " +
                                                                          std::to_string(status) + ctx);
                        return;
                }
        }
        if (!acc) {
                st.events_rejected++;
                return;
        }
        st.events_accepted++;
        ev_quiet = false;
        std::vector<Item> items = simulate_event(m, cmd, type);
        EvRec r;
        r.cmd = cmd;
        r.type = type;
        r.total = r.remaining = (int)items.size();
        r.accept_svc = svc_calls;
        evs.push_back(r);
        if (items.empty())
                st.events_silent++;
        for (auto &it : items) {
                evq.push_back(it);
                evq_owner.push_back((int)accepted);
        }
        accepted++;
        // floods of events without observable processing while the parser never gets quiescent (a held command):
        // the ring holds at most qcap <= 8 waiting events, so one that has seen 512 later acceptances has left it
        while (evs.size() > 512 && evs.front().total == 0 && (evq_owner.empty() || (uint64_t)evq_owner.front() > ev_base)) {
                evs.pop_front();
                ev_base++;
                st.events_finished++;
                if (popped_certain < ev_base)
                        popped_certain = ev_base;
                if (popped_possible < popped_certain)
                        popped_possible = popped_certain;
        }
}

void Monitor::release_request(int status, bool certain)
{
        (void)certain;
        if (hold_phase == 0)
                return;
        if (hold_phase == 1) {
                hold_phase = 2;
                release_svc = svc_calls;
        }
        if (status > 0)
                req_ok = true;
        else
                req_err = true;
}

void Monitor::on_hexit(int status_arg, int result)
{
        if (dead())
                return;
        stimulus_since_ok = true;
        svc_ok_now = false;
        if (result == ST_MUTEX_UNLOCK) {
                // the body ran, only its status was replaced by the unlock error
                if (hold_phase != 0)
                        release_request(status_arg == 0 ? 1 : -1, true);
                return;
        }
        if (result == ST_OK) {
                if (hold_phase == 0) {
                        fail("C14", "hold-exit-accepted-outside-hold", "cat_hold_exit returned OK although no command is held");
                        return;
                }
                st.releases_api++;
                release_request(status_arg == 0 ? 1 : -1, true);
        } else if (result == ST_NOT_HOLD) {
                st.spurious_releases++;
                if (hold_phase == 1 || (hold_phase == 2 && release_svc == svc_calls && cands.empty())) {
                        fail("C14", "hold-exit-refused-during-hold", "cat_hold_exit returned ERROR_NOT_HOLD while a command is held");
                        return;
                }
        }
}

void Monitor::on_busy(int r)
{
        // still evaluated while a stray unit is being collected: "OK with a line partially received" does not
        // depend on the output side
        if (viol.set() || desync || off)
                return;
        if (stray) {
                if (r == ST_OK && partial_line()) {
                        stray = false;
                        fail_soft("C18", "busy-ok-while-work-in-flight", "cat_is_busy returned OK but a command line is partially received (\"" + vis(cur_line) +
                                                                         "\"; its answer \"" + vis(cur_unit) + "\" was emitted before the line was complete)");
                }
                return;
        }
        if (r != ST_OK && r != ST_BUSY)
                return;
        st.busy_samples++;
        if (r == ST_OK) {
                st.busy_ok_samples++;
                std::string why;
                if (partial_line())
                        why = "a command line is partially received (\"" + vis(cur_line) + "\")";
                else if (!cmdq.empty())
                        why = "a command line is still being processed (expecting " + head_desc(cmdq) + ")";
                else if (!cands.empty())
                        why = "an output unit is partially emitted (\"" + vis(cur_unit) + "\")";
                if (!why.empty())
                        fail_soft("C18", "busy-ok-while-work-in-flight", "cat_is_busy returned OK but " + why);
        } else if (last_svc_ok && !stimulus_since_ok && !partial_line() && cmdq.empty() && evq.empty() && cands.empty()) {
                fail_soft("C18", "busy-while-quiescent", "cat_is_busy returned BUSY although cat_service reported OK, no line is partially received and nothing happened since");
        } else if (svc_ok_now && !partial_line() && hold_phase == 0) {
                // the two public functions disagree about quiescence, whatever the model still expects
                fail_soft("C18,C15", "busy-although-service-reports-ok", "cat_is_busy returned BUSY right after cat_service returned OK with no line partially received and nothing happening in between (command side expects " +
                                                                             head_desc(cmdq) + ", event side expects " + head_desc(evq) + ")");
        }
}

void Monitor::on_hold_query(int r)
{
        if (dead())
                return;
        if (r != ST_OK && r != ST_HOLD)
                return;
        st.hold_samples++;
        if (hold_phase == 1 && r != ST_HOLD)
                fail_soft("C14,C18", "is-hold-false-during-hold", "cat_is_hold returned OK while a command is suspended and no release was requested");
        else if (hold_phase == 0 && r == ST_HOLD)
                fail_soft("C14,C18", "is-hold-true-outside-hold", "cat_is_hold returned HOLD although no command is suspended");
}

void Monitor::on_buffered(int cmd, int type, int r)
{
        if (dead())
                return;
        if (r != ST_OK && r != ST_BUSY)
                return;
        st.buffered_samples++;
        bool must_busy = false, any = false;
        for (auto &e : evs) {
                if (e.cmd != cmd || (type != CT_NONE && e.type != type))
                        continue;
                any = true;
                if (e.remaining > 0 || e.accept_svc == svc_calls)
                        must_busy = true;
        }
        if (must_busy) {
                st.buffered_must++;
                if (r != ST_BUSY)
                        fail_soft("C13", "buffered-query-ok-for-pending-event", "cat_is_unsolicited_event_buffered(cmd " + std::to_string(cmd) + ", type " + std::to_string(type) +
                                                                               ") returned OK although such an event was accepted and is not finished");
        } else if (!any && evs.empty() && evq.empty() && last_svc_ok && !stimulus_since_ok) {
                st.buffered_must++;
                if (r != ST_OK)
                        fail_soft("C13", "buffered-query-busy-with-nothing-pending", "cat_is_unsolicited_event_buffered(cmd " + std::to_string(cmd) + ") returned BUSY although the parser is quiescent");
        } else if (!any) {
                // nothing accepted-and-unfinished matches this (command, type); the only other thing the library may
                // still hold is the event that finished last
                bool last_matches = last_finished_ev_cmd == cmd && last_finished_ev_type != -2 && (type == CT_NONE || last_finished_ev_type == type || last_finished_ev_type == -3);
                if (!last_matches) {
                        st.buffered_must++;
                        if (r != ST_OK)
                                fail_soft("C13", "buffered-query-busy-for-other-event", "cat_is_unsolicited_event_buffered(cmd " + std::to_string(cmd) + ", type " + std::to_string(type) +
                                                                                     ") returned BUSY although no event of that command and type is pending or in progress");
                }
        }
}

void Monitor::on_processed(int fsm, int cmd)
{
        if (dead() || fsm != FSM_EV)
                return;
        // event in flight (some but not all of its items seen): must be reported
        if (!evs.empty()) {
                const EvRec &e = evs.front();
                if (e.total > 0 && e.remaining > 0 && e.remaining < e.total) {
                        if (cmd != e.cmd)
                                fail_soft("C13", "processed-command-wrong-during-event", "cat_get_processed_command(UNSOLICITED) returned cmd " + std::to_string(cmd) + " while the event on cmd " +
                                                                                        std::to_string(e.cmd) + " is in progress");
                        return;
                }
        }
        if (cmd == -1)
                return;
        if (cmd == last_finished_ev_cmd)
                return;
        for (auto &e : evs) {
                if (e.cmd == cmd)
                        return;
                if (e.total > 0)
                        break;
        }
        fail_soft("C13", "processed-command-not-pending", "cat_get_processed_command(UNSOLICITED) returned cmd " + std::to_string(cmd) + " which is neither in progress nor just finished");
}

bool Monitor::config_idle() const { return off || (cmdq.empty() && !partial_line() && hold_phase == 0); }

void Monitor::on_flag(int kind, int idx, int val)
{
        if (off)
                return;
        if (kind == 0)
                m.cmd_dis[(size_t)idx] = (char)val;
        else
                m.grp_dis[(size_t)idx] = (char)val;
}

void Monitor::on_setvar(int cmd, int var, const bytes &val)
{
        if (off)
                return;
        m.vals[(size_t)cmd][(size_t)var] = val;
        m.havoc[(size_t)cmd][(size_t)var] = 0;
}

void Monitor::on_fresh()
{
        cmdq.clear();
        evq.clear();
        evq_owner.clear();
        evs.clear();
        cands.clear();
        cur_line.clear();
        cur_unit.clear();
        hold_phase = 0;
        req_ok = req_err = false;
        ev_base = accepted = popped_certain = popped_possible = 0;
        last_finished_ev_cmd = -1;
        last_finished_ev_type = -2;
        in_list = false;
        last_svc_ok = false;
        stimulus_since_ok = true;
        svc_ok_now = false;
        ev_quiet = true;
}

void Monitor::flush_deferred()
{
        if (deferred_ok.empty() || viol.set() || desync || off)
                return;
        std::string d = deferred_ok;
        deferred_ok.clear();
        if (!evq.empty())
                fail("C15,C13,C11", "event-left-behind-after-ok", d + "; the event was never delivered afterwards");
        else if (!cmdq.empty() && hold_phase != 1)
                fail(std::string("C15,C01,") + cmdq.front().tag, "line-unanswered-after-ok", d + "; the line was never answered afterwards");
        else
                fail("C15", "service-ok-with-work-pending", d);
}

void Monitor::finish(bool drained)
{
        if (stray)
                classify_stray();
        flush_deferred();
        if (dead() || !drained)
                return;
        if (!cands.empty()) {
                fail("C11", "unit-truncated-at-end", "output ends inside a unit: \"" + vis(cur_unit) + "\"");
                return;
        }
        if (!cmdq.empty() && hold_phase != 1) {
                const Item &it = cmdq.front();
                fail(it.is_result ? "C01" : it.tag, it.is_result ? "result-code-missing" : "expected-item-missing-at-end", "after the final drain still expecting " + head_desc(cmdq));
                return;
        }
        if (!evq.empty()) {
                fail("C13,C11", "accepted-event-not-delivered", "after the final drain still expecting " + head_desc(evq));
                return;
        }
}
