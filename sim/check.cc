#include "check.h"
#include "gen.h"
#include "model.h"

bool prop_matches(const std::string &viol_props, const std::string &prop)
{
        if (prop.empty() || prop == "-" || prop == "any")
                return !viol_props.empty();
        size_t pos = 0;
        while (pos <= viol_props.size()) {
                size_t c = viol_props.find(',', pos);
                std::string one = viol_props.substr(pos, c == std::string::npos ? std::string::npos : c - pos);
                if (one == prop)
                        return true;
                if (c == std::string::npos)
                        break;
                pos = c + 1;
        }
        return false;
}

static void classify(Outcome &o, const std::string &prop, const Violation &v)
{
        if (!v.set())
                return;
        if (prop_matches(v.prop, prop)) {
                if (!o.viol.set())
                        o.viol = v;
        } else if (!o.other.set())
                o.other = v;
}

static Violation twin_viol(const char *prop, const char *rule, const std::string &what, const bytes &a, const bytes &b)
{
        Violation v;
        v.prop = prop;
        v.rule = rule;
        size_t i = 0;
        while (i < a.size() && i < b.size() && a[i] == b[i])
                i++;
        size_t from = i > 24 ? i - 24 : 0;
        v.detail = what + ": first difference at byte " + std::to_string(i) + "; A=\"..." + vis(a.substr(from, 64)) + "\" B=\"..." + vis(b.substr(from, 64)) + "\"";
        return v;
}

// variables of line-addressable commands only (the isolated-lines twin has no event traffic)
static std::vector<bytes> line_vars(const Plan &p, const std::vector<bytes> &flat)
{
        std::vector<bytes> r;
        size_t k = 0;
        for (auto &c : p.cmds)
                for (size_t v = 0; v < c.vars.size(); v++, k++)
                        if (!c.ev && k < flat.size())
                                r.push_back(flat[k]);
        return r;
}

// ---------------------------------------------------------------- C20: isolated-lines twin

static Plan derive_isolated(const Plan &s)
{
        Plan q = s;
        q.ops.clear();
        ModelState ms;
        ms.init(s);
        auto add = [&](int kind, int64_t a = 0) {
                Op o;
                o.kind = kind;
                o.a = a;
                q.ops.push_back(o);
        };
        for (size_t i = 0; i < s.ops.size(); i++) {
                const Op &o = s.ops[i];
                if (o.kind == OP_IN) {
                        size_t st = 0;
                        while (st < o.data.size()) {
                                size_t lf = o.data.find('\n', st);
                                size_t en = lf == bytes::npos ? o.data.size() : lf + 1;
                                bytes line = o.data.substr(st, en - st);
                                st = en;
                                add(OP_FRESH);
                                Op in;
                                in.kind = OP_IN;
                                in.data = line;
                                q.ops.push_back(in);
                                add(OP_QUIESCE, 100000);
                                bytes body = line;
                                if (!body.empty() && body.back() == '\n')
                                        body.pop_back();
                                std::vector<Item> items = simulate_line(ms, body);
                                bool holds = false;
                                for (auto &it : items)
                                        holds |= it.kind == Item::HOLDWAIT;
                                if (holds) {
                                        int64_t status = 0;
                                        for (size_t j = i + 1; j < s.ops.size(); j++)
                                                if (s.ops[j].kind == OP_HEXIT) {
                                                        status = s.ops[j].a;
                                                        break;
                                                }
                                        add(OP_HEXIT, status);
                                        add(OP_QUIESCE, 100000);
                                }
                        }
                } else if (o.kind == OP_SETVAR || o.kind == OP_FLAG) {
                        q.ops.push_back(o);
                        if (o.kind == OP_SETVAR)
                                ms.vals[(size_t)o.a][(size_t)o.b] = o.data;
                        else if (o.a == 0)
                                ms.cmd_dis[(size_t)o.b] = (char)(o.c != 0);
                        else
                                ms.grp_dis[(size_t)o.b] = (char)(o.c != 0);
                }
        }
        add(OP_DRAIN);
        return q;
}

// ---------------------------------------------------------------- main dispatch

Outcome check_plan(const std::string &prop, const Plan &p)
{
        Outcome o;
        RunOpts ro;
        ro.focus = prop;
        if (p.prop == "C03R")
                ro.monitor = false; // robustness-only plans outside the modelled domain
        if ((prop == "C16" || prop == "C17") && p.mutex && !engine_asan())
                ro.lockset = true;
        if (prop == "C20" || prop == "C08")
                ro.keep_going = true;
        o.res = run_plan(p, ro);
        o.runs = 1;
        classify(o, prop, o.res.viol);
        if (!o.other.set() && o.res.soft_other.set())
                o.other = o.res.soft_other;
        if (o.viol.set())
                return o;

        if (prop == "C12" && !o.res.desync) {
                Plan e = plan_eager(p);
                RunOpts eo;
                eo.focus = prop;
                eo.eager = true;
                RunResult re = run_plan(e, eo);
                o.runs++;
                o.twin_pairs++;
                if (re.viol.set() != o.res.viol.set() && !re.desync && !re.eng.overrun && !o.res.eng.overrun) {
                        // the (schedule-independent) model is satisfied under one schedule and violated under the
                        // other: whatever the finding is about, the behaviour depends on the schedule
                        const Violation &w = re.viol.set() ? re.viol : o.res.viol;
                        Violation v;
                        v.prop = "C12";
                        v.rule = "conforms-under-one-schedule-only";
                        v.detail = std::string("the ") + (re.viol.set() ? "eager" : "perturbed") + " schedule of this plan violates " + w.prop + "/" + w.rule + " while the " +
                                   (re.viol.set() ? "perturbed" : "eager") + " schedule of the same plan conforms: " + w.detail;
                        o.other = Violation();
                        classify(o, prop, v);
                } else if (re.viol.set() || o.res.viol.set()) {
                        classify(o, prop, re.viol);
                } else if (!re.desync && !re.eng.overrun && !o.res.eng.overrun) {
                        const RunResult &rp = o.res;
                        Violation v;
                        if (re.cmd_units != rp.cmd_units)
                                v = twin_viol("C12", "command-output-depends-on-schedule", "command-response units differ between the eager and the perturbed schedule", re.cmd_units, rp.cmd_units);
                        else if (re.cmd_handlers != rp.cmd_handlers)
                                v = twin_viol("C12", "handler-trace-depends-on-schedule", "command handler invocations differ between the eager and the perturbed schedule", re.cmd_handlers,
                                              rp.cmd_handlers);
                        else if (re.mon.events_rejected == 0 && rp.mon.events_rejected == 0 && re.ev_units != rp.ev_units)
                                v = twin_viol("C12", "event-output-depends-on-schedule", "unsolicited units differ between the eager and the perturbed schedule", re.ev_units, rp.ev_units);
                        else if (re.mon.events_rejected == 0 && rp.mon.events_rejected == 0 && re.ev_handlers != rp.ev_handlers)
                                v = twin_viol("C12", "event-handler-trace-depends-on-schedule", "event handler invocations differ", re.ev_handlers, rp.ev_handlers);
                        else if (re.mon.events_accepted == 0 && rp.mon.events_accepted == 0 && re.out != rp.out)
                                v = twin_viol("C12", "output-depends-on-schedule", "output byte streams differ", re.out, rp.out);
                        else if (re.final_vars != rp.final_vars)
                                v.prop = "C12", v.rule = "variables-depend-on-schedule", v.detail = "final variable contents differ between the eager and the perturbed schedule";
                        classify(o, prop, v);
                }
        }

        if (prop == "C08") {
                // twin differing only in the contents of write-only variables
                RunOpts to = ro;
                Rng rr(mix_seed(p.fill, 0xC08));
                bool any = false;
                for (auto &c : p.cmds)
                        for (auto &v : c.vars) {
                                bytes b = v.init;
                                if (v.access == ACC_WO) {
                                        for (auto &ch : b)
                                                ch = (char)rr.next();
                                        if (b == v.init)
                                                b[0] = (char)(b[0] ^ 0x55);
                                        any = true;
                                }
                                to.override_init.push_back(b);
                        }
                if (any) {
                        // both runs execute the whole plan even if the model objects: non-interference is judged on
                        // the complete byte streams alone
                        to.keep_going = true;
                        RunResult rt = run_plan(p, to);
                        o.runs++;
                        o.twin_pairs++;
                        Violation v;
                        if (rt.eng.overrun || o.res.eng.overrun || rt.desync || o.res.desync)
                                ;
                        else if (rt.out != o.res.out)
                                v = twin_viol("C08", "output-depends-on-write-only-contents", "two runs differing only in the contents of write-only variables produced different output", o.res.out,
                                              rt.out);
                        else if (rt.viol.set())
                                v = rt.viol;
                        if (v.set() && v.prop == "C08")
                                o.other = Violation();
                        classify(o, prop, v);
                }
        }

        if (prop == "C20" && !o.res.desync) {
                Plan iso = derive_isolated(p);
                RunOpts io;
                io.focus = prop;
                io.eager = true;
                io.keep_going = true;
                RunResult ri = run_plan(iso, io);
                o.runs++;
                o.twin_pairs++;
                if (ri.viol.set() != o.res.viol.set() && !ri.desync && !ri.eng.overrun && !o.res.eng.overrun) {
                        // every line conforms when fed alone to a fresh parser but not in sequence (or vice versa)
                        const Violation &w = ri.viol.set() ? ri.viol : o.res.viol;
                        Violation v;
                        v.prop = "C20";
                        v.rule = "conforms-only-in-isolation";
                        v.detail = std::string("the lines ") + (ri.viol.set() ? "fed one by one to fresh parsers" : "fed in sequence") + " violate " + w.prop + "/" + w.rule + " while the same lines " +
                                   (ri.viol.set() ? "in sequence" : "fed one by one to fresh parsers") + " conform: " + w.detail;
                        o.other = Violation();
                        classify(o, prop, v);
                } else if (ri.viol.set() || o.res.viol.set()) {
                        // both object: the complete byte streams (no events in this profile) still have to agree
                        bool events = false;
                        for (auto &op : p.ops)
                                events |= op.kind == OP_TRIG;
                        Violation v;
                        if (!events && !ri.eng.overrun && !o.res.eng.overrun && ri.out != o.res.out)
                                v = twin_viol("C20", "output-differs-from-isolated-lines", "output for the line sequence differs from the concatenated outputs of the lines fed alone to a fresh parser (both runs also violate " +
                                                                                               o.res.viol.prop + "/" + o.res.viol.rule + ")",
                                              o.res.out, ri.out);
                        if (v.set()) {
                                o.other = Violation();
                                classify(o, prop, v);
                        } else
                                classify(o, prop, ri.viol);
                } else if (!ri.desync && !ri.eng.overrun && !o.res.eng.overrun) {
                        Violation v;
                        if (ri.cmd_units != o.res.cmd_units)
                                v = twin_viol("C20", "response-depends-on-earlier-lines", "output for the line sequence differs from the concatenated outputs of the lines fed alone to a fresh parser",
                                              o.res.cmd_units, ri.cmd_units);
                        else if (ri.cmd_handlers != o.res.cmd_handlers)
                                v = twin_viol("C20", "handler-trace-depends-on-earlier-lines", "handler invocations differ from those of the lines fed alone", o.res.cmd_handlers, ri.cmd_handlers);
                        else if (line_vars(p, ri.final_vars) != line_vars(p, o.res.final_vars))
                                v.prop = "C20", v.rule = "variables-depend-on-earlier-lines", v.detail = "final variable contents differ from those after feeding the lines alone";
                        classify(o, prop, v);
                }
        }

        if (prop == "C16" && p.mutex && p.lockfail < 0 && p.unlockfail < 0 && !o.res.viol.set()) {
                // fault enumeration: lock and unlock fail at every position k along this history
                long nl = (long)o.res.eng.lock_calls, nu = (long)o.res.eng.unlock_calls;
                for (int which = 0; which < 2 && !o.viol.set(); which++) {
                        long n = which == 0 ? nl : nu;
                        // every position when the history has at most 600 calls; beyond that every position of
                        // the first 200 calls and an even stride over the rest (keeps the cost per history bounded)
                        long stride = n > 600 ? (n - 200 + 399) / 400 : 1;
                        for (long k = 0; k < n && !o.viol.set(); k += (k < 200 ? 1 : stride)) {
                                Plan v = p;
                                if (which == 0)
                                        v.lockfail = (int)k;
                                else
                                        v.unlockfail = (int)k;
                                // page-protection lockset on the fault-free run and on every 16th fault position
                                RunOpts vo = ro;
                                vo.lockset = ro.lockset && (k % 16 == 0);
                                RunResult rv = run_plan(v, vo);
                                o.runs++;
                                o.enum_points++;
                                o.variant_hashes.push_back(std::make_pair(((uint64_t)(which + 1) << 32) | (uint64_t)k, rv.hash));
                                if (rv.viol.set()) {
                                        classify(o, prop, rv.viol);
                                        if (o.viol.set()) {
                                                o.res = rv;
                                                // the failing plan is the variant
                                                o.res.viol.detail += " [fault position: " + std::string(which == 0 ? "lock" : "unlock") + " call #" + std::to_string(k) + "]";
                                                o.viol = o.res.viol;
                                                o.has_fail_plan = true;
                                                o.fail_plan = v;
                                        }
                                }
                        }
                }
        }
        return o;
}
