// Engine: the world around the real cat.c. Everything cat.c can observe or call is owned
// here: io read/write, handlers, variable callbacks, mutex, the descriptor and its memory.
#include "engine.h"
#include <cassert>
#include <csignal>
#include <ucontext.h>
#include <cstdlib>
#include <map>
#include <pthread.h>
#include <sched.h>
#include <semaphore.h>
#include <sys/mman.h>
#include <unistd.h>
extern "C" {
#include "cat.h"
}
#if defined(__has_include)
#if __has_include(<valgrind/memcheck.h>)
#include <valgrind/memcheck.h>
#define HAVE_MEMCHECK 1
#endif
#endif
#ifndef HAVE_MEMCHECK
#define RUNNING_ON_VALGRIND 0
#define VALGRIND_MAKE_MEM_UNDEFINED(p, n) ((void)0)
#define VALGRIND_MAKE_MEM_DEFINED(p, n) ((void)0)
#endif

static_assert((int)CAT_RETURN_STATE_ERROR == RC_ERROR && (int)CAT_RETURN_STATE_DATA_OK == RC_DATA_OK && (int)CAT_RETURN_STATE_DATA_NEXT == RC_DATA_NEXT && (int)CAT_RETURN_STATE_NEXT == RC_NEXT &&
                  (int)CAT_RETURN_STATE_OK == RC_OK && (int)CAT_RETURN_STATE_HOLD == RC_HOLD && (int)CAT_RETURN_STATE_HOLD_EXIT_OK == RC_HOLD_EXIT_OK &&
                  (int)CAT_RETURN_STATE_HOLD_EXIT_ERROR == RC_HOLD_EXIT_ERROR && (int)CAT_RETURN_STATE_PRINT_CMD_LIST_OK == RC_PRINT_CMD_LIST_OK,
              "return codes");
static_assert((int)CAT_VAR_INT_DEC == T_INT && (int)CAT_VAR_UINT_DEC == T_UINT && (int)CAT_VAR_NUM_HEX == T_HEX && (int)CAT_VAR_BUF_HEX == T_BUFHEX && (int)CAT_VAR_BUF_STRING == T_STRING, "var types");
static_assert((int)CAT_VAR_ACCESS_READ_WRITE == ACC_RW && (int)CAT_VAR_ACCESS_READ_ONLY == ACC_RO && (int)CAT_VAR_ACCESS_WRITE_ONLY == ACC_WO, "access");
static_assert((int)CAT_CMD_TYPE_NONE == CT_NONE && (int)CAT_CMD_TYPE_RUN == CT_RUN && (int)CAT_CMD_TYPE_READ == CT_READ && (int)CAT_CMD_TYPE_WRITE == CT_WRITE && (int)CAT_CMD_TYPE_TEST == CT_TEST, "cmd types");
static_assert((int)CAT_FSM_TYPE_ATCMD == FSM_CMD && (int)CAT_FSM_TYPE_UNSOLICITED == FSM_EV, "fsm");

#ifdef SIM_ASAN
#define GUARD 0
#else
#define GUARD 16
#endif

std::set<uint32_t> g_states;
std::set<uint64_t> g_transitions;

extern "C" int peek_state(const void *obj, int out[4]); // peek.cc or peek_stub.cc
extern "C" size_t peek_mutable_offset(void);

int engine_qcap() { return (int)CAT_UNSOLICITED_CMD_BUFFER_SIZE; }
bool engine_asan() { return GUARD == 0; }

namespace {

static const char *e_lock_tag();

struct Block {
        unsigned char *base = nullptr; // allocation
        unsigned char *p = nullptr;    // usable pointer
        size_t size = 0;
        bool mapped = false;
        size_t maplen = 0;
};

struct Engine : MemView {
        const Plan &plan;
        const RunOpts &opts;
        Monitor mon;
        EngStats es;
        Hash64 log;
        Hash64 fp;
        int fp_last = -1;
        Rng fillrng;

        // materialised descriptor
        std::vector<Block> blocks;
        std::vector<std::vector<cat_command>> gcmds; // per group
        std::vector<cat_command> loose;              // unregistered commands
        std::vector<cat_command_group> groups;
        std::vector<cat_command_group *> group_ptrs;
        std::vector<std::vector<cat_variable>> vars; // per cmd
        std::vector<cat_command *> cmd_ptr;          // per plan cmd
        std::vector<std::vector<Block>> var_mem;
        std::vector<std::vector<bytes>> ro_shadow;
        std::map<const void *, int> cmd_of;
        std::map<const void *, std::pair<int, int>> var_of;
        cat_descriptor desc;
        cat_io_interface io;
        cat_mutex_interface mtx;
        Block objblk, bufblk, ubufblk;
        cat_object *obj = nullptr;
        unsigned char *cmdbuf = nullptr, *evbuf = nullptr;
        size_t cmdcap = 0, evcap = 0;

        // io
        bytes rx;
        size_t rx_pos = 0;
        bytes out;
        int rx_mode = 0; // 0 ready, 1 stall, 2 pattern
        long rx_stall = 0, rx_skip = 0;
        Rng rx_rng;
        int rx_p = 0, rx_burst = 1, rx_left = 0;
        int tx_mode = 0;
        long tx_stall = 0, tx_skip = 0;
        int tx_code = 0;
        Rng tx_rng;
        int tx_p = 0, tx_burst = 1, tx_left = 0;
        bool force_rx_refuse = false;

        // scripts
        std::vector<size_t> sp; // [cmd][kind][fsm]
        size_t &script_pos(int cmd, int kind, int fsm) { return sp[((size_t)cmd * 4 + (size_t)kind) * 2 + (size_t)fsm]; }

        // callback accounting
        uint64_t callbacks = 0;     // handler + var callbacks + accepted/refused writes + successful reads
        uint64_t app_callbacks = 0; // handler + var callbacks only
        // mutex
        int depth = 0;
        long lock_calls = 0, unlock_calls = 0;
        bool in_api = false;
        // threads (C17): real pthreads, exactly one runs at a time, the seeded scheduler decides who
        struct ApiRec {
                const char *name;
                int lock_seen, lock_failed, unlock_seen, unlock_failed;
                uint64_t cb0;
                uint64_t memhash;
                bool have_hash;
        };
        ApiRec api;
        struct Thr {
                pthread_t th;
                sem_t sem;
                int state = 0; // 0 runnable, 1 blocked on the mutex, 2 done
                std::vector<const Op *> ops;
                ApiRec api_save;
                bool in_api_save = false;
                bool used = false;
        };
        bool thr_mode = false;
        Thr thr[12];
        int cur = 0;
        int owner = -1;
        Rng sched;
        uint64_t switches = 0, yields = 0, blocked_on_mutex = 0;
        sem_t main_sem;
        bool ls_protected_now = false;
        // twin oracles want the run to go on after the model objected, so that both runs cover the same ops
        bool stop_now() const { return mon.viol.set() && !opts.keep_going; }
        bool yield_pending = false;
        void flush_yield()
        {
                if (thr_mode && yield_pending) {
                        yield_pending = false;
                        yield_point();
                }
        }
        void yield_point();
        void yield_blocked();
        void switch_to(int next);
        int pick_runnable(bool include_self);
        void thread_body(int id);
        void run_threads();
        void join_others();
        struct CbTrig {
                int cmd, type, where;
                long skip;
        };
        std::vector<CbTrig> cbtrig; // triggers waiting to be issued from inside an io callback
        void fire_cbtrig(int where)
        {
                if (cbtrig.empty() || force_rx_refuse)
                        return;
                for (size_t i = 0; i < cbtrig.size(); i++) {
                        if (cbtrig[i].where != where)
                                continue;
                        if (cbtrig[i].skip > 0) {
                                cbtrig[i].skip--;
                                continue;
                        }
                        CbTrig t = cbtrig[i];
                        cbtrig.erase(cbtrig.begin() + (long)i);
                        do_trigger(t.cmd, t.type);
                        return; // one per callback
                }
        }
        bytes iso_ev, iso_cmd;
        // halves beyond 4 KiB (giant worlds): the first and the last 2 KiB stand for the half
        static void iso_snap(bytes &dst, const void *buf, size_t cap)
        {
                const char *b = (const char *)buf;
                if (cap <= 4096)
                        dst.assign(b, cap);
                else {
                        dst.assign(b, 2048);
                        dst.append(b + cap - 2048, 2048);
                }
        }
        static bool iso_differs(const bytes &snap, const void *buf, size_t cap)
        {
                const char *b = (const char *)buf;
                if (cap <= 4096)
                        return memcmp(snap.data(), b, cap) != 0;
                return memcmp(snap.data(), b, 2048) != 0 || memcmp(snap.data() + 2048, b + cap - 2048, 2048) != 0;
        }
        bool other_on = false; // second parser instance (plan.other)
        bool on_valgrind = false; // harness-side peeks at library memory are switched off
        void other_step_hook();
        // livelock detection
        uint64_t last_state_hash = 0;
        bool last_state_valid = false;
        // coverage
        int prev_state = -1;
        bool draining = false;

        Engine(const Plan &p, const RunOpts &o) : plan(p), opts(o), mon(p, this), fillrng(p.fill)
        {
                mon.focus = o.focus;
                // twin runs with replaced initial contents: the model starts from the same contents
                size_t flat = 0;
                if (!o.override_init.empty())
                        for (size_t c = 0; c < p.cmds.size(); c++)
                                for (size_t v = 0; v < p.cmds[c].vars.size(); v++, flat++)
                                        if (flat < o.override_init.size())
                                                mon.m.vals[c][v] = o.override_init[flat];
        }
        ~Engine();

        // memory
        Block alloc(size_t size, bool protect_candidate = false);
        bool guards_ok(std::string &which);
        bytes var_bytes(int cmd, int var) override { return bytes((const char *)var_mem[(size_t)cmd][(size_t)var].p, (size_t)plan.cmds[(size_t)cmd].vars[(size_t)var].size); }
        void materialise();
        uint64_t mem_hash();

        // lockset
        bool ls_on = false;
        size_t arena_used = 0;
        void ls_protect(bool on);

        // api
        void begin_api(const char *name);
        void end_api(int ret, bool locking);
        int api_service();
        int api_busy();
        int api_hold();
        int api_full();
        int api_trigger(int cmd, int type);
        int api_hexit(int status);
        int api_buffered(int cmd, int type);
        int api_processed(int fsm);

        void observers();
        int service_once();
        void probe();
        void do_trigger(int cmd, int type);
        void do_hexit(int status);
        void drain();
        void roundtrip(int cmd, int evcmd = -1, int evtype = 0, long evdelay = 0);
        void exec(const Op &o);
        void note_fp(int kind);
        void cover();
        void check_ro();
        long drain_bound();
};

Engine *E = nullptr;

// with real threads an unlocked access is also a data race (C17)
static const char *e_lock_tag() { return E && E->plan.sched != 0 ? "C16,C17" : "C16"; }

// ------------------------------------------------------------------ lockset by page protection

// One persistent arena per process: page 0 ends with the three configuration pointers of the
// object, everything mutable (rest of the object, working buffers) follows and is PROT_NONE
// whenever the simulated mutex is not held.
static unsigned char *g_arena = nullptr;
static size_t g_arena_len = 0;
static unsigned char *g_prot_p = nullptr;
static size_t g_prot_len = 0;
static volatile sig_atomic_t g_ls_fault = 0;
static void *volatile g_ls_addr = nullptr;
static struct sigaction g_old_segv;
static bool g_segv_installed = false;

// Reads without the lock are legitimate for fields that never change after cat_init (the library looks at
// self->mutex before it can lock): such a read is let through by single-stepping the one instruction with the
// pages open, the bytes it may have covered are remembered, and every time the lock is released those bytes must
// still hold what cat_init left there. A write without the lock, or a read of the working buffers, is a fault
// at once. Nothing here depends on the layout of struct cat_object.
static unsigned char *g_obj_p = nullptr;
static size_t g_obj_len = 0;
static unsigned char g_obj_init[1024];
static unsigned char g_unlocked_read[1024]; // per byte of the object: read while the lock was not held
static volatile sig_atomic_t g_unlocked_reads = 0;
static volatile sig_atomic_t g_stepping = 0;

static void ls_verify_unlocked_reads()
{
        if (!g_unlocked_reads || !g_obj_p)
                return;
        for (size_t i = 0; i < g_obj_len; i++)
                if (g_unlocked_read[i] && g_obj_p[i] != g_obj_init[i]) {
                        g_ls_fault = g_ls_fault + 1;
                        if (!g_ls_addr)
                                g_ls_addr = g_obj_p + i;
                        g_unlocked_read[i] = 0; // report once
                }
}

static void segv_handler(int sig, siginfo_t *si, void *ctx)
{
        ucontext_t *uc = (ucontext_t *)ctx;
        unsigned char *a = (unsigned char *)si->si_addr;
        if (g_prot_p && a >= g_prot_p && a < g_prot_p + g_prot_len) {
                bool is_write = (uc->uc_mcontext.gregs[REG_ERR] & 2) != 0;
                bool in_obj = g_obj_p && a >= g_obj_p && a < g_obj_p + g_obj_len;
                if (!is_write && in_obj && g_obj_len <= sizeof g_obj_init) {
                        // up to the end of the aligned 8-byte word the access starts in
                        size_t off = (size_t)(a - g_obj_p);
                        size_t end = std::min(g_obj_len, (off | 7) + 1);
                        for (size_t i = off; i < end; i++)
                                g_unlocked_read[i] = 1;
                        g_unlocked_reads = g_unlocked_reads + 1;
                        g_stepping = 1;
                        mprotect(g_prot_p, g_prot_len, PROT_READ | PROT_WRITE);
                        uc->uc_mcontext.gregs[REG_EFL] |= 0x100; // trap after this one instruction
                        return;
                }
                // access to parser state without the lock: remember it and let the run continue
                g_ls_fault = g_ls_fault + 1;
                if (!g_ls_addr)
                        g_ls_addr = a;
                mprotect(g_prot_p, g_prot_len, PROT_READ | PROT_WRITE);
                return;
        }
        // not ours: restore the previous disposition and re-raise
        sigaction(sig, &g_old_segv, nullptr);
        raise(sig);
}

static void trap_handler(int sig, siginfo_t *si, void *ctx)
{
        (void)sig;
        (void)si;
        ucontext_t *uc = (ucontext_t *)ctx;
        uc->uc_mcontext.gregs[REG_EFL] &= ~(greg_t)0x100;
        if (g_stepping) {
                g_stepping = 0;
                ls_verify_unlocked_reads(); // the bytes just read must be what cat_init left there
                if (g_prot_p)
                        mprotect(g_prot_p, g_prot_len, PROT_NONE);
        }
}

static void install_ls_handlers()
{
        if (g_segv_installed)
                return;
        struct sigaction sa;
        memset(&sa, 0, sizeof sa);
        sa.sa_sigaction = segv_handler;
        sa.sa_flags = SA_SIGINFO | SA_NODEFER;
        sigaction(SIGSEGV, &sa, &g_old_segv);
        struct sigaction st;
        memset(&st, 0, sizeof st);
        st.sa_sigaction = trap_handler;
        st.sa_flags = SA_SIGINFO;
        sigaction(SIGTRAP, &st, nullptr);
        g_segv_installed = true;
}

// Where does the library read the object without the lock? Found once per process by running the real cat.c on a
// throw-away object that is protected as a whole (reads single-stepped as above). If all such bytes lie at the
// beginning or at the end of struct cat_object, the object is placed so that they sit on an unprotected page and
// the ordinary runs never fault there; otherwise the whole object stays protected and the stepping does the work.
static int g_cal_mode = -1; // -1 not calibrated, 0 whole object protected, 1 prefix [0,split) open, 2 suffix [split,size) open
static size_t g_cal_split = 0;
static int cal_lock(void)
{
        mprotect(g_prot_p, g_prot_len, PROT_READ | PROT_WRITE);
        return 0;
}
static int cal_unlock(void)
{
        mprotect(g_prot_p, g_prot_len, PROT_NONE);
        return 0;
}
static int cal_read(char *c)
{
        (void)c;
        return 0;
}
static int cal_write(char c)
{
        (void)c;
        return 1;
}
static cat_return_state cal_run(const struct cat_command *c)
{
        (void)c;
        return CAT_RETURN_STATE_OK;
}
static void ls_calibrate(size_t pg)
{
        g_cal_mode = 0;
        g_cal_split = 0;
        if (sizeof(struct cat_object) > sizeof g_obj_init)
                return;
        static uint8_t cbuf[64];
        static struct cat_command ccmd[1];
        static struct cat_command_group cgrp;
        static struct cat_command_group *cgrps[1];
        static struct cat_descriptor cdesc;
        static struct cat_io_interface cio;
        static struct cat_mutex_interface cmtx;
        memset(ccmd, 0, sizeof ccmd);
        ccmd[0].name = "+CAL";
        ccmd[0].run = cal_run;
        memset(&cgrp, 0, sizeof cgrp);
        cgrp.cmd = ccmd;
        cgrp.cmd_num = 1;
        cgrps[0] = &cgrp;
        memset(&cdesc, 0, sizeof cdesc);
        cdesc.cmd_group = cgrps;
        cdesc.cmd_group_num = 1;
        cdesc.buf = cbuf;
        cdesc.buf_size = sizeof cbuf;
        cio.read = cal_read;
        cio.write = cal_write;
        cmtx.lock = cal_lock;
        cmtx.unlock = cal_unlock;
        struct cat_object *o = (struct cat_object *)(g_arena + pg);
        g_prot_p = g_arena + pg;
        g_prot_len = pg;
        g_obj_p = nullptr;
        g_obj_len = sizeof(struct cat_object);
        g_unlocked_reads = 0;
        memset(g_unlocked_read, 0, sizeof g_unlocked_read);
        g_ls_fault = 0;
        g_ls_addr = nullptr;
        cat_init(o, &cdesc, &cio, &cmtx);
        memcpy(g_obj_init, o, sizeof(struct cat_object));
        g_obj_p = (unsigned char *)o;
        mprotect(g_prot_p, g_prot_len, PROT_NONE);
        for (int i = 0; i < 4; i++)
                cat_service(o);
        cat_is_busy(o);
        cat_is_hold(o);
        cat_trigger_unsolicited_event(o, &ccmd[0], CAT_CMD_TYPE_READ);
        cat_is_unsolicited_buffer_full(o);
        for (int i = 0; i < 6; i++)
                cat_service(o);
        cat_hold_exit(o, CAT_STATUS_OK);
        mprotect(g_prot_p, g_prot_len, PROT_READ | PROT_WRITE);
        size_t lo = sizeof(struct cat_object), hi = 0;
        for (size_t i = 0; i < sizeof(struct cat_object); i++)
                if (g_unlocked_read[i]) {
                        lo = std::min(lo, i & ~(size_t)7);
                        hi = std::max(hi, (i | 7) + 1);
                }
        // (bytes that did change between an unlocked read and a later unlock were unmarked by the verification:
        // they are violations, found again in the real runs, and must not decide the placement)
        if (hi != 0) {
                if (hi <= sizeof(struct cat_object) / 2) {
                        g_cal_mode = 1;
                        g_cal_split = hi;
                } else if (lo >= sizeof(struct cat_object) / 2) {
                        g_cal_mode = 2;
                        g_cal_split = lo;
                }
        }
        g_prot_p = nullptr;
        g_prot_len = 0;
        g_obj_p = nullptr;
        g_unlocked_reads = 0;
        memset(g_unlocked_read, 0, sizeof g_unlocked_read);
        g_ls_fault = 0;
        g_ls_addr = nullptr;
}

void Engine::ls_protect(bool on)
{
        if (!ls_on)
                return;
        if (thr_mode && on == ls_protected_now)
                return;
        ls_protected_now = on;
        es.lockset_switches++;
        if (on && g_unlocked_reads)
                ls_verify_unlocked_reads(); // (the pages are open at this point: the lock is being released)
        mprotect(g_prot_p, g_prot_len, on ? PROT_NONE : (PROT_READ | PROT_WRITE));
}

// ------------------------------------------------------------------ memory

Block Engine::alloc(size_t size, bool protect_candidate)
{
        Block b;
        b.size = size;
        if (protect_candidate && ls_on) {
                arena_used = (arena_used + 15) & ~(size_t)15;
                b.base = b.p = g_arena + arena_used;
                arena_used += size ? size : 1;
                b.mapped = true;
                for (size_t i = 0; i < size; i++)
                        b.p[i] = (unsigned char)fillrng.next();
                return b;
        }
        b.base = (unsigned char *)malloc(size + 2 * GUARD + (GUARD ? 0 : 0));
        if (!b.base && size + 2 * GUARD == 0)
                b.base = (unsigned char *)malloc(1);
        assert(b.base);
        b.p = b.base + GUARD;
        for (size_t i = 0; i < size + 2 * GUARD; i++)
                b.base[i] = (unsigned char)fillrng.next();
        for (size_t i = 0; i + 1 <= (size_t)GUARD; i++) {
                b.base[i] = (unsigned char)(0xA5 ^ i);
                b.base[GUARD + size + i] = (unsigned char)(0x5A ^ i);
        }
        blocks.push_back(b);
        return b;
}

bool Engine::guards_ok(std::string &which)
{
        for (size_t k = 0; k < blocks.size(); k++) {
                const Block &b = blocks[k];
                if (b.mapped)
                        continue;
                for (size_t i = 0; i + 1 <= (size_t)GUARD; i++)
                        if (b.base[i] != (unsigned char)(0xA5 ^ i) || b.base[GUARD + b.size + i] != (unsigned char)(0x5A ^ i)) {
                                which = "block " + std::to_string(k) + " size " + std::to_string(b.size) + (b.base[i] != (unsigned char)(0xA5 ^ i) ? " (before)" : " (after)");
                                return false;
                        }
        }
        return true;
}

Engine::~Engine()
{
        if (ls_on) {
                mprotect(g_prot_p, g_prot_len, PROT_READ | PROT_WRITE);
                g_prot_p = nullptr;
                g_prot_len = 0;
        }
        for (auto &b : blocks)
                if (!b.mapped)
                        free(b.base);
}

static char *dup_str(Engine *e, const std::string &s)
{
        Block b = e->alloc(s.size() + 1);
        memcpy(b.p, s.data(), s.size());
        b.p[s.size()] = 0;
        return (char *)b.p;
}

// ------------------------------------------------------------------ callbacks from cat.c

static void cb_check_lock(const char *what)
{
        if (E->plan.mutex && E->depth != 1)
                E->mon.fail(e_lock_tag(), "callback-outside-lock", std::string(what) + " invoked while the mutex is not held");
}

static int io_read(char *ch)
{
        Engine *e = E;
        e->yield_point();
        cb_check_lock("io read");
        bool ready = true;
        bool have0 = e->rx_pos < e->rx.size();
        if (e->force_rx_refuse)
                ready = false;
        else if (!e->opts.eager && have0) { // readiness only matters (and is only consumed) when a byte is waiting
                if (e->rx_mode == 1) {
                        if (e->rx_skip > 0) {
                                e->rx_skip--;
                        } else if (e->rx_stall > 0) {
                                e->rx_stall--;
                                ready = false;
                        } else
                                e->rx_mode = 0;
                } else if (e->rx_mode == 2) {
                        if (e->rx_left > 0) {
                                e->rx_left--;
                                ready = false;
                        } else if ((int)e->rx_rng.below(1000) < e->rx_p) {
                                e->rx_left = (int)e->rx_rng.below((uint64_t)e->rx_burst);
                                ready = false;
                        }
                }
        }
        bool have = e->rx_pos < e->rx.size();
        if (!ready || !have) {
                if (!ready && have) {
                        e->es.f_read_refused++;
                        e->note_fp(1);
                }
                if (e->plan.scribble && !ready) {
                        *ch = (char)(0x80 | (e->es.f_read_refused & 0x7f));
                        e->es.f_read_scribble++;
                }
                e->log.add((uint64_t)0x100);
                e->mon.on_read(false, 0);
                e->fire_cbtrig(0);
                return 0;
        }
        unsigned char b = (unsigned char)e->rx[e->rx_pos++];
        *ch = (char)b;
        e->es.rx_bytes++;
        e->callbacks++;
        e->log.add((uint64_t)0x200 + b);
        e->note_fp(2);
        e->mon.on_read(true, b);
        e->fire_cbtrig(0);
        return 1;
}

static int io_write(char ch)
{
        Engine *e = E;
        e->yield_point();
        cb_check_lock("io write");
        e->callbacks++;
        bool ok = true;
        int code = 0;
        if (!e->opts.eager) {
                if (e->tx_mode == 1) {
                        if (e->tx_skip > 0) {
                                e->tx_skip--;
                        } else if (e->tx_stall > 0) {
                                e->tx_stall--;
                                ok = false;
                                code = e->tx_code;
                        } else
                                e->tx_mode = 0;
                } else if (e->tx_mode == 2) {
                        if (e->tx_left > 0) {
                                e->tx_left--;
                                ok = false;
                                code = e->tx_code;
                        } else if ((int)e->tx_rng.below(1000) < e->tx_p) {
                                e->tx_left = (int)e->tx_rng.below((uint64_t)e->tx_burst);
                                ok = false;
                                code = e->tx_code;
                        }
                }
        }
        if (!ok) {
                e->es.f_write_refused++;
                if (code < 0)
                        e->es.f_write_refused_neg++;
                if (ch == '\n' || ch == '\r')
                        e->es.f_write_refused_first++; // a newline byte: first or last byte of a unit
                e->log.add((uint64_t)0x300 + (unsigned char)ch);
                e->note_fp(3);
                e->mon.on_write((unsigned char)ch, false);
                e->fire_cbtrig(1);
                return code;
        }
        if (e->opts.keep_output)
                e->out += ch;
        e->es.tx_bytes++;
        e->log.add((uint64_t)0x400 + (unsigned char)ch);
        e->note_fp(4);
        e->mon.on_write((unsigned char)ch, true);
        e->fire_cbtrig(1);
        return 1;
}

static int run_step(Engine *e, int ci, int kind, int fsm, uint8_t *data, size_t *data_size, size_t max)
{
        const CmdSpec &cs = e->plan.cmds[(size_t)ci];
        size_t &pos = e->script_pos(ci, kind, fsm);
        Step def;
        def.code = (kind == K_READ || kind == K_TEST) ? RC_DATA_OK : RC_OK;
        // the step to execute is the one of the matched expectation (a flow can end without a terminal code,
        // e.g. when re-formatting fails, and the next line starts the script afresh); the own position is only a
        // fallback for runs without model
        if (e->mon.matched_step >= -1) {
                pos = e->mon.matched_step >= 0 ? (size_t)e->mon.matched_step : cs.script[kind].size();
                e->mon.matched_step = -2;
        }
        const Step *st = pos < cs.script[kind].size() ? &cs.script[kind][pos++] : &def;
        switch (st->act) {
        case A_SETTEXT:
                if (data && st->text.size() + 1 <= max) {
                        memcpy(data, st->text.data(), st->text.size());
                        data[st->text.size()] = 0;
                        *data_size = st->text.size();
                }
                break;
        case A_APPEND:
                if (data && *data_size + st->text.size() + 1 <= max) {
                        memcpy(data + *data_size, st->text.data(), st->text.size());
                        *data_size += st->text.size();
                        data[*data_size] = 0;
                }
                break;
        case A_BUMP:
                if (st->a >= 0 && st->a < (int)cs.vars.size()) {
                        e->var_mem[(size_t)ci][(size_t)st->a].p[0]++;
                        e->ro_shadow[(size_t)ci][(size_t)st->a][0]++;
                }
                break;
        case A_TRIG:
                e->do_trigger(st->a, st->b);
                break;
        case A_HEXIT:
                e->do_hexit(st->a);
                break;
        default:
                break;
        }
        int code = st->code;
        if (code != RC_NEXT && code != RC_DATA_NEXT)
                pos = 0;
        if (code == RC_ERROR)
                e->es.f_handler_err++;
        else if (code < RC_ERROR || code > RC_PRINT_CMD_LIST_OK)
                e->es.f_handler_invalid++;
        e->log.add((uint64_t)0x500 + (uint64_t)(code & 0xff));
        return code;
}

static int lookup_cmd(const struct cat_command *cmd)
{
        auto it = E->cmd_of.find(cmd);
        if (it == E->cmd_of.end()) {
                E->mon.fail("C02", "handler-called-with-unknown-command-pointer", "a handler received a command pointer that is not part of the descriptor");
                return -1;
        }
        return it->second;
}

static cat_return_state h_write(const struct cat_command *cmd, const uint8_t *data, const size_t data_size, const size_t args_num)
{
        Engine *e = E;
        e->yield_point();
        cb_check_lock("write handler");
        e->callbacks++;
        e->app_callbacks++;
        int ci = lookup_cmd(cmd);
        if (ci < 0)
                return CAT_RETURN_STATE_ERROR;
        e->note_fp(5);
        if (data != e->cmdbuf)
                e->mon.fail_soft("C06", "write-handler-buffer-pointer", "write handler received a data pointer that is not the command working buffer");
        else if (data_size >= e->cmdcap)
                e->mon.fail_soft("C06", "write-handler-size-beyond-capacity", "data_size " + std::to_string(data_size) + " >= capacity " + std::to_string(e->cmdcap));
        else if (data[data_size] != 0)
                e->mon.fail_soft("C06", "write-handler-data-not-terminated", "data[data_size] != 0");
        if (!e->mon.dead()) {
                if (cat_get_processed_command(e->obj, CAT_FSM_TYPE_ATCMD) != cmd)
                        e->mon.fail_soft("C13", "processed-command-differs-inside-handler", "cat_get_processed_command(ATCMD) is not the command whose handler is running");
                e->mon.on_handler(ci, K_WRITE, FSM_CMD, bytes((const char *)data, std::min(data_size, e->cmdcap)), data_size, args_num);
        }
        return (cat_return_state)run_step(e, ci, K_WRITE, FSM_CMD, nullptr, nullptr, 0);
}

static cat_return_state h_run(const struct cat_command *cmd)
{
        Engine *e = E;
        e->yield_point();
        cb_check_lock("run handler");
        e->callbacks++;
        e->app_callbacks++;
        int ci = lookup_cmd(cmd);
        if (ci < 0)
                return CAT_RETURN_STATE_ERROR;
        e->note_fp(5);
        e->mon.on_handler(ci, K_RUN, FSM_CMD, bytes(), 0, 0);
        return (cat_return_state)run_step(e, ci, K_RUN, FSM_CMD, nullptr, nullptr, 0);
}

static cat_return_state h_rt(int kind, const struct cat_command *cmd, uint8_t *data, size_t *data_size, const size_t max)
{
        Engine *e = E;
        e->yield_point();
        cb_check_lock("read/test handler");
        e->callbacks++;
        e->app_callbacks++;
        int ci = lookup_cmd(cmd);
        if (ci < 0)
                return CAT_RETURN_STATE_ERROR;
        e->note_fp(5);
        int fsm;
        if (data == e->cmdbuf)
                fsm = FSM_CMD;
        else if (data == e->evbuf)
                fsm = FSM_EV;
        else {
                e->mon.fail("C06", "handler-buffer-pointer", "read/test handler received a data pointer that is neither working buffer");
                return CAT_RETURN_STATE_ERROR;
        }
        size_t cap = fsm == FSM_CMD ? e->cmdcap : e->evcap;
        if (max != cap)
                e->mon.fail_soft("C06", "handler-capacity", "max_data_size " + std::to_string(max) + " but the buffer holds " + std::to_string(cap) + " bytes");
        else if (*data_size >= cap)
                e->mon.fail_soft("C06", "handler-size-beyond-capacity", "*data_size " + std::to_string(*data_size) + " >= capacity " + std::to_string(cap));
        else if (data[*data_size] != 0)
                e->mon.fail_soft("C06", "handler-data-not-terminated", "data[*data_size] != 0");
        if (e->mon.dead())
                return CAT_RETURN_STATE_ERROR;
        if (cat_get_processed_command(e->obj, (cat_fsm_type)fsm) != cmd)
                e->mon.fail_soft("C13", "processed-command-differs-inside-handler", "cat_get_processed_command is not the command whose handler is running");
        e->mon.on_handler(ci, kind, fsm, bytes((const char *)data, std::min(*data_size, cap)), *data_size, max);
        int code = run_step(e, ci, kind, fsm, data, data_size, max);
        e->mon.on_handler_done(fsm, bytes((const char *)data, strnlen((const char *)data, max)));
        return (cat_return_state)code;
}

static cat_return_state h_read(const struct cat_command *cmd, uint8_t *data, size_t *data_size, const size_t max) { return h_rt(K_READ, cmd, data, data_size, max); }
static cat_return_state h_test(const struct cat_command *cmd, uint8_t *data, size_t *data_size, const size_t max) { return h_rt(K_TEST, cmd, data, data_size, max); }

static int v_cb(const struct cat_variable *var, int vkind, size_t wsize)
{
        Engine *e = E;
        e->yield_point();
        cb_check_lock("variable callback");
        e->callbacks++;
        e->app_callbacks++;
        auto it = e->var_of.find(var);
        if (it == e->var_of.end()) {
                e->mon.fail("C02", "variable-callback-with-unknown-pointer", "a variable callback received a pointer that is not part of the descriptor");
                return 1;
        }
        int ci = it->second.first, vi = it->second.second;
        const VarSpec &vs = e->plan.cmds[(size_t)ci].vars[(size_t)vi];
        e->note_fp(6);
        e->log.add((uint64_t)0x600 + (uint64_t)vkind);
        e->mon.on_varcb(ci, vi, vkind, wsize);
        int mode = vkind ? vs.wcb : vs.rcb;
        if (mode == 2) {
                e->es.f_varcb_fail++;
                return (vi & 1) ? -1 : 5;
        }
        return 0;
}
static int v_read(const struct cat_variable *var) { return v_cb(var, 0, 0); }
static int v_write(const struct cat_variable *var, const size_t wsize) { return v_cb(var, 1, wsize); }

static int m_lock(void)
{
        Engine *e = E;
        e->es.lock_calls++;
        e->api.lock_seen++;
        long k = e->lock_calls++;
        e->log.add((uint64_t)0x700);
        if (!e->in_api)
                e->mon.fail(e_lock_tag(), "lock-outside-api-call", "mutex lock called outside any public API call");
        if (e->depth != 0) {
                e->mon.fail(e_lock_tag(), "lock-taken-twice", std::string("mutex lock called while already held in ") + (e->api.name ? e->api.name : "?"));
                return 0;
        }
        if (e->thr_mode) {
                // another thread may get in first; if the mutex is taken, park until it is released
                e->yield_point();
                while (e->owner != -1) {
                        e->blocked_on_mutex++;
                        e->thr[e->cur].state = 1;
                        e->yield_blocked();
                }
                e->owner = e->cur;
                e->depth = 1;
                e->ls_protect(false);
                if (e->api.name && !strcmp(e->api.name, "cat_service"))
                        e->mon.on_service_begin();
                return 0;
        }
        if (k == e->plan.lockfail) {
                e->api.lock_failed++;
                e->es.f_lock_fail++;
                e->note_fp(7);
                return 1;
        }
        e->depth = 1;
        e->ls_protect(false);
        if (e->api.name && !strcmp(e->api.name, "cat_service"))
                e->mon.on_service_begin();
        return 0;
}

static int m_unlock(void)
{
        Engine *e = E;
        e->es.unlock_calls++;
        e->api.unlock_seen++;
        long k = e->unlock_calls++;
        e->log.add((uint64_t)0x701);
        if (e->depth != 1) {
                e->mon.fail(e_lock_tag(), "unlock-without-lock", std::string("mutex unlock called while not held in ") + (e->api.name ? e->api.name : "?"));
                return 0;
        }
        e->ls_protect(true);
        e->depth = 0;
        if (e->thr_mode) {
                e->owner = -1;
                for (int t = 0; t < 12; t++)
                        if (e->thr[t].used && e->thr[t].state == 1)
                                e->thr[t].state = 0;
                // the hand-off happens once the caller has told the monitor what the call returned
                // (API call + bookkeeping are one atomic step of the simulation)
                e->yield_pending = true;
                return 0;
        }
        if (k == e->plan.unlockfail) {
                e->api.unlock_failed++;
                e->es.f_unlock_fail++;
                e->note_fp(8);
                return 1;
        }
        return 0;
}

} // namespace

// ------------------------------------------------------------------ a second parser instance in the same process
// An unrelated cat_object with its own descriptor, buffers and io, serviced between the calls of the parser
// under test (a product with two AT ports). It shares nothing with the first instance except the code of cat.c,
// so it can only matter if the library keeps state outside the object.

namespace {
struct Other {
        std::vector<std::string> names;
        std::vector<cat_command> cmds[3];
        cat_command_group groups[3];
        cat_command_group *gptr[3];
        cat_descriptor desc;
        cat_io_interface io;
        cat_object obj;
        uint8_t buf[96];
        int32_t value = 0;
        cat_variable var;
        bytes rx;
        size_t rx_pos = 0;
        Rng rng;
        bool on = false;
};
Other *OT = nullptr;
static int o_read(char *ch)
{
        if (OT->rx_pos >= OT->rx.size() || OT->rng.below(5) == 0)
                return 0;
        *ch = OT->rx[OT->rx_pos++];
        return 1;
}
static int o_write(char ch)
{
        (void)ch;
        return OT->rng.below(7) == 0 ? 0 : 1;
}
static cat_return_state o_run(const struct cat_command *c)
{
        (void)c;
        return CAT_RETURN_STATE_OK;
}
static void other_setup(Other &o, uint64_t seed)
{
        o.rng.reseed(seed);
        int ng = 2 + (int)o.rng.below(2);
        size_t total = 0;
        for (int g = 0; g < ng; g++)
                total += 1 + o.rng.below(6);
        o.names.reserve(32);
        o.rng.reseed(seed);
        ng = 2 + (int)o.rng.below(2);
        memset(&o.var, 0, sizeof o.var);
        o.var.type = CAT_VAR_INT_DEC;
        o.var.data = &o.value;
        o.var.data_size = 4;
        for (int g = 0; g < ng; g++) {
                size_t n = 1 + o.rng.below(6);
                o.cmds[g].resize(n);
                for (size_t k = 0; k < n; k++) {
                        o.names.push_back(std::string("+O") + (char)('A' + g) + (char)('0' + k));
                        cat_command &c = o.cmds[g][k];
                        memset(&c, 0, sizeof c);
                        c.name = o.names.back().c_str();
                        c.run = o_run;
                        c.var = &o.var;
                        c.var_num = 1;
                        c.disable = o.rng.below(4) == 0;
                }
                memset(&o.groups[g], 0, sizeof o.groups[g]);
                o.groups[g].cmd = o.cmds[g].data();
                o.groups[g].cmd_num = n;
                o.groups[g].disable = o.rng.below(4) == 0;
                o.gptr[g] = &o.groups[g];
        }
        memset(&o.desc, 0, sizeof o.desc);
        o.desc.cmd_group = o.gptr;
        o.desc.cmd_group_num = (size_t)ng;
        o.desc.buf = o.buf;
        o.desc.buf_size = sizeof o.buf;
        o.io.read = o_read;
        o.io.write = o_write;
        cat_init(&o.obj, &o.desc, &o.io, nullptr);
        // endless supply of lines for it
        for (int l = 0; l < 40; l++) {
                const std::string &nm = o.names[o.rng.below(o.names.size())];
                static const char *suf[4] = {"", "?", "=5", "=?"};
                o.rx += "AT" + nm + suf[o.rng.below(4)] + (o.rng.below(2) ? "\r\n" : "\n");
        }
        o.on = true;
}
static void other_step(Other &o)
{
        int n = 1 + (int)o.rng.below(3);
        for (int i = 0; i < n; i++) {
                if (o.rx_pos >= o.rx.size())
                        o.rx_pos = 0;
                cat_service(&o.obj);
        }
}
} // namespace

// ------------------------------------------------------------------ parked threads (C17)

int Engine::pick_runnable(bool include_self)
{
        int cand[12], n = 0;
        for (int t = 0; t < 12; t++)
                if (thr[t].used && thr[t].state == 0 && (include_self || t != cur))
                        cand[n++] = t;
        if (n == 0)
                return -1;
        return cand[sched.below((uint64_t)n)];
}

void Engine::switch_to(int next)
{
        int me = cur;
        thr[me].api_save = api;
        thr[me].in_api_save = in_api;
        cur = next;
        api = thr[next].api_save;
        in_api = thr[next].in_api_save;
        depth = owner == next ? 1 : 0;
        // parser state is accessible only while the *incoming* thread holds the mutex
        ls_protect(depth == 0);
        switches++;
        log.add((uint64_t)0xD00 + (uint64_t)next);
        sem_post(&thr[next].sem);
        sem_wait(&thr[me].sem);
}

void Engine::yield_point()
{
        if (!thr_mode)
                return;
        yields++;
        if (yields > 2000000)
                return;
        int next = pick_runnable(true);
        if (next >= 0 && next != cur)
                switch_to(next);
}

void Engine::yield_blocked()
{
        // the running thread waits for the mutex: somebody else has to run
        int next = pick_runnable(false);
        if (next < 0) {
                mon.fail("C17", "deadlock", "every thread is waiting for the mutex", true);
                owner = -1;
                for (int t = 0; t < 12; t++)
                        if (thr[t].used && thr[t].state == 1)
                                thr[t].state = 0;
                return;
        }
        switch_to(next);
}

void Engine::join_others()
{
        while (true) {
                bool all = true;
                for (int t = 1; t < 12; t++)
                        if (thr[t].used && thr[t].state != 2)
                                all = false;
                if (all)
                        return;
                int next = pick_runnable(false);
                if (next < 0) {
                        mon.fail("C17", "deadlock", "application threads are blocked although the service thread does not hold the mutex", true);
                        return;
                }
                switch_to(next);
        }
}

void Engine::thread_body(int id)
{
        sem_wait(&thr[id].sem);
        for (const Op *o : thr[id].ops) {
                if (stop_now() || es.overrun)
                        break;
                for (int64_t i = 0; i < o->c && id != 0; i++)
                        yield_point(); // the application thread does something else for a while
                yield_point();
                exec(*o);
        }
        if (id == 0 && !mon.viol.set())
                join_others();
        thr[id].state = 2;
        int next = pick_runnable(false);
        if (next < 0) {
                bool all = true;
                for (int t = 0; t < 12; t++)
                        if (thr[t].used && thr[t].state != 2)
                                all = false;
                if (!all) {
                        mon.fail("C17", "deadlock", "remaining threads are all waiting for the mutex", true);
                        owner = -1;
                        for (int t = 0; t < 12; t++)
                                if (thr[t].used && thr[t].state == 1)
                                        thr[t].state = 0;
                        next = pick_runnable(false);
                }
        }
        if (next < 0) {
                sem_post(&main_sem);
                return;
        }
        thr[id].api_save = api;
        cur = next;
        api = thr[next].api_save;
        in_api = thr[next].in_api_save;
        depth = owner == next ? 1 : 0;
        ls_protect(depth == 0);
        log.add((uint64_t)0xD00 + (uint64_t)next);
        sem_post(&thr[next].sem);
}

struct ThrArg {
        Engine *e;
        int id;
};
static void *thr_main(void *a)
{
        ThrArg *ta = (ThrArg *)a;
        ta->e->thread_body(ta->id);
        return nullptr;
}

void Engine::run_threads()
{
        thr_mode = true;
        sched.reseed(plan.sched);
        sem_init(&main_sem, 0, 0);
        thr[0].used = true;
        for (const Op &o : plan.ops) {
                thr[o.thr].used = true;
                thr[o.thr].ops.push_back(&o);
        }
        ThrArg args[12];
        memset(&api, 0, sizeof api);
        // all threads on the CPU of the creating thread: only one runs at a time anyway, and hand-offs
        // between CPUs are an order of magnitude slower
        int cpu = sched_getcpu();
        if (cpu >= 0) {
                cpu_set_t cs;
                CPU_ZERO(&cs);
                CPU_SET(cpu, &cs);
                sched_setaffinity(0, sizeof cs, &cs);
        }
        for (int t = 0; t < 12; t++) {
                if (!thr[t].used)
                        continue;
                sem_init(&thr[t].sem, 0, 0);
                thr[t].api_save = api;
                args[t].e = this;
                args[t].id = t;
                pthread_attr_t at;
                pthread_attr_init(&at);
                pthread_attr_setstacksize(&at, 256 * 1024);
                if (cpu >= 0) {
                        cpu_set_t cs;
                        CPU_ZERO(&cs);
                        CPU_SET(cpu, &cs);
                        pthread_attr_setaffinity_np(&at, sizeof cs, &cs);
                }
                pthread_create(&thr[t].th, &at, thr_main, &args[t]);
                pthread_attr_destroy(&at);
        }
        ls_protected_now = true;
        int first = pick_runnable(true);
        cur = first;
        depth = 0;
        sem_post(&thr[first].sem);
        sem_wait(&main_sem);
        for (int t = 0; t < 12; t++)
                if (thr[t].used) {
                        pthread_join(thr[t].th, nullptr);
                        sem_destroy(&thr[t].sem);
                }
        sem_destroy(&main_sem);
        thr_mode = false;
}

// ------------------------------------------------------------------ materialise

void Engine::materialise()
{
        ls_on = opts.lockset && plan.mutex && GUARD != 0;
        size_t pg = (size_t)sysconf(_SC_PAGESIZE);
        if (ls_on) {
                size_t need = pg + sizeof(struct cat_object) + (size_t)plan.buf_size + (size_t)plan.ubuf_size + 256;
                if (!g_arena) {
                        g_arena_len = 48 * pg;
                        g_arena = (unsigned char *)mmap(nullptr, g_arena_len, PROT_READ | PROT_WRITE, MAP_PRIVATE | MAP_ANONYMOUS, -1, 0);
                        if (g_arena == MAP_FAILED)
                                g_arena = nullptr;
                }
                if (!g_arena || need + pg > g_arena_len)
                        ls_on = false;
                else {
                        if (g_cal_mode < 0) {
                                install_ls_handlers();
                                ls_calibrate(pg);
                        }
                        // buffers are carved from arena_used upwards
                        arena_used = g_cal_mode == 1 ? pg - g_cal_split + sizeof(struct cat_object) : g_cal_mode == 2 ? pg : pg + sizeof(struct cat_object);
                }
        }
        size_t n = plan.cmds.size();
        vars.resize(n);
        var_mem.resize(n);
        ro_shadow.resize(n);
        cmd_ptr.assign(n, nullptr);
        sp.assign(n * 8, 0);
        gcmds.resize(plan.groups.size());
        size_t flat = 0;
        for (size_t i = 0; i < n; i++) {
                const CmdSpec &cs = plan.cmds[i];
                vars[i].resize(cs.vars.size());
                for (size_t v = 0; v < cs.vars.size(); v++) {
                        const VarSpec &vs = cs.vars[v];
                        Block b = alloc((size_t)vs.size);
                        const bytes &init = (!opts.override_init.empty() && flat < opts.override_init.size()) ? opts.override_init[flat] : vs.init;
                        memcpy(b.p, init.data(), (size_t)vs.size);
                        flat++;
                        var_mem[i].push_back(b);
                        ro_shadow[i].push_back(bytes((const char *)b.p, (size_t)vs.size));
                        cat_variable &cv = vars[i][v];
                        memset(&cv, 0, sizeof cv);
                        cv.name = vs.named ? dup_str(this, vs.name) : nullptr;
                        cv.type = (cat_var_type)vs.type;
                        cv.data = b.p;
                        cv.data_size = (size_t)vs.size;
                        cv.access = (cat_var_access)vs.access;
                        cv.write = vs.wcb ? v_write : nullptr;
                        cv.read = vs.rcb ? v_read : nullptr;
                }
        }
        // variable arrays must not move any more
        for (size_t i = 0; i < n; i++)
                for (size_t v = 0; v < vars[i].size(); v++)
                        var_of[&vars[i][v]] = std::make_pair((int)i, (int)v);
        auto fillcmd = [&](cat_command &cc, size_t i) {
                const CmdSpec &cs = plan.cmds[i];
                memset(&cc, 0, sizeof cc);
                cc.name = dup_str(this, cs.name);
                cc.description = cs.has_desc ? dup_str(this, cs.desc) : nullptr;
                cc.write = cs.h[K_WRITE] ? h_write : nullptr;
                cc.read = cs.h[K_READ] ? h_read : nullptr;
                cc.run = cs.h[K_RUN] ? h_run : nullptr;
                cc.test = cs.h[K_TEST] ? h_test : nullptr;
                cc.var = (cs.var_null || vars[i].empty()) ? nullptr : vars[i].data();
                cc.var_num = cs.var_null ? 0 : vars[i].size();
                cc.need_all_vars = cs.need_all;
                cc.only_test = cs.only_test;
                cc.disable = cs.disable;
                cc.implicit_write = cs.implicit;
        };
        std::vector<size_t> gcount(plan.groups.size(), 0), lcount(1, 0);
        size_t nloose = 0;
        for (size_t i = 0; i < n; i++) {
                if (plan.cmds[i].registered)
                        gcount[(size_t)plan.cmds[i].group]++;
                else
                        nloose++;
        }
        for (size_t g = 0; g < plan.groups.size(); g++)
                gcmds[g].resize(gcount[g]);
        loose.resize(nloose);
        std::vector<size_t> gi(plan.groups.size(), 0);
        size_t li = 0;
        for (size_t i = 0; i < n; i++) {
                cat_command *cc = plan.cmds[i].registered ? &gcmds[(size_t)plan.cmds[i].group][gi[(size_t)plan.cmds[i].group]++] : &loose[li++];
                fillcmd(*cc, i);
                cmd_ptr[i] = cc;
                cmd_of[cc] = (int)i;
        }
        groups.resize(plan.groups.size());
        group_ptrs.resize(plan.groups.size());
        for (size_t g = 0; g < plan.groups.size(); g++) {
                memset(&groups[g], 0, sizeof groups[g]);
                groups[g].name = plan.groups[g].named ? dup_str(this, plan.groups[g].name) : nullptr;
                groups[g].cmd = gcmds[g].data();
                groups[g].cmd_num = gcmds[g].size();
                groups[g].disable = plan.groups[g].disable;
                group_ptrs[g] = &groups[g];
        }
        bufblk = alloc((size_t)plan.buf_size, true);
        memset(&desc, 0, sizeof desc);
        desc.cmd_group = group_ptrs.data();
        desc.cmd_group_num = group_ptrs.size();
        desc.buf = bufblk.p;
        desc.buf_size = (size_t)plan.buf_size;
        if (plan.shared) {
                desc.unsolicited_buf = nullptr;
                desc.unsolicited_buf_size = 0;
                cmdcap = evcap = (size_t)plan.buf_size / 2;
                cmdbuf = bufblk.p;
                evbuf = bufblk.p + cmdcap;
        } else {
                ubufblk = alloc((size_t)plan.ubuf_size, true);
                desc.unsolicited_buf = ubufblk.p;
                desc.unsolicited_buf_size = (size_t)plan.ubuf_size;
                cmdcap = (size_t)plan.buf_size;
                evcap = (size_t)plan.ubuf_size;
                cmdbuf = bufblk.p;
                evbuf = ubufblk.p;
        }
        io.read = io_read;
        io.write = io_write;
        mtx.lock = m_lock;
        mtx.unlock = m_unlock;
        if (ls_on) {
                // placement by calibration (ls_calibrate): the bytes the library reads without the lock end up on an
                // unprotected page when they form a prefix or a suffix of the object; the buffers are protected always
                objblk.base = g_arena;
                objblk.mapped = true;
                g_prot_p = g_arena + pg;
                if (g_cal_mode == 2) {
                        size_t e = ((arena_used + 16 + g_cal_split + pg - 1) / pg) * pg; // end of the protected pages
                        objblk.p = g_arena + e - g_cal_split;
                        g_prot_len = e - pg;
                } else {
                        objblk.p = g_cal_mode == 1 ? g_arena + pg - g_cal_split : g_arena + pg;
                        g_prot_len = ((arena_used - pg + pg - 1) / pg) * pg;
                }
                objblk.size = sizeof(struct cat_object);
                for (size_t i = 0; i < sizeof(struct cat_object); i++)
                        objblk.p[i] = (unsigned char)fillrng.next();
                install_ls_handlers();
                g_obj_p = nullptr; // set once cat_init has run
                g_obj_len = sizeof(struct cat_object);
                g_unlocked_reads = 0;
                memset(g_unlocked_read, 0, sizeof g_unlocked_read);
                g_ls_fault = 0;
                g_ls_addr = nullptr;
        } else {
                objblk = alloc(sizeof(struct cat_object));
        }
        obj = (cat_object *)objblk.p;
        if (plan.other && !plan.sched) {
                static Other s_other;
                s_other = Other();
                OT = &s_other;
                other_setup(s_other, plan.fill ^ 0x07e2);
                other_on = true;
                for (int i = 0; i < 5; i++)
                        other_step(s_other); // it is usually in the middle of a line
        }
        // under valgrind (C03 spot runs) everything the application does not initialise is undefined: the object
        // before cat_init and the working buffers; a use of such bytes by cat.c is then reported
        on_valgrind = RUNNING_ON_VALGRIND != 0;
        if (on_valgrind) {
                VALGRIND_MAKE_MEM_UNDEFINED(obj, sizeof(struct cat_object));
                VALGRIND_MAKE_MEM_UNDEFINED(bufblk.p, bufblk.size);
                if (!plan.shared && ubufblk.size)
                        VALGRIND_MAKE_MEM_UNDEFINED(ubufblk.p, ubufblk.size);
        }
        cat_init(obj, &desc, &io, plan.mutex ? &mtx : nullptr);
        if (ls_on && sizeof(struct cat_object) <= sizeof g_obj_init) {
                memcpy(g_obj_init, obj, sizeof(struct cat_object));
                g_obj_p = (unsigned char *)obj;
        }
        ls_protect(true);
}

void Engine::other_step_hook()
{
        bool unprot = false;
        (void)unprot;
        other_step(*OT);
}

uint64_t Engine::mem_hash()
{
        Hash64 h;
        bool unprot = ls_on && depth == 0;
        if (unprot)
                ls_protect(false);
        h.add(obj, sizeof *obj);
        h.add(bufblk.p, bufblk.size);
        if (!plan.shared)
                h.add(ubufblk.p, ubufblk.size);
        if (unprot)
                ls_protect(true);
        return h.h;
}

void Engine::note_fp(int kind)
{
        if (kind == fp_last)
                return;
        fp_last = kind;
        fp.add((uint64_t)kind);
}

// ------------------------------------------------------------------ API wrappers with lock discipline

void Engine::begin_api(const char *name)
{
        api.name = name;
        api.lock_seen = api.lock_failed = api.unlock_seen = api.unlock_failed = 0;
        api.cb0 = callbacks;
        api.have_hash = false;
        if (plan.mutex && plan.lockfail >= 0 && lock_calls == plan.lockfail) {
                api.memhash = mem_hash();
                api.have_hash = true;
        }
        in_api = true;
}

void Engine::end_api(int ret, bool locking)
{
        in_api = false;
        if (!plan.mutex || !locking || mon.dead())
                return;
        std::string fn = api.name;
        if (ls_on && g_ls_fault) {
                mon.fail(e_lock_tag(), "state-accessed-without-lock", fn + ": parser state or working buffer touched while the mutex was not held");
                g_ls_fault = 0;
                ls_protect(depth == 0);
                return;
        }
        if (api.lock_seen != 1) {
                mon.fail(e_lock_tag(), "lock-call-count", fn + " called lock " + std::to_string(api.lock_seen) + " times");
                return;
        }
        if (depth != 0) {
                // a public call that keeps the mutex has a lasting effect on every later call: also a finding of the
                // property that says what this particular call does
                std::string tag = e_lock_tag();
                if (fn == "cat_hold_exit")
                        tag += ",C14";
                else if (fn.find("trigger") != std::string::npos || fn == "cat_is_unsolicited_buffer_full")
                        tag += ",C13";
                else if (fn == "cat_is_busy" || fn == "cat_is_hold")
                        tag += ",C18";
                mon.fail(tag, "returned-holding-lock", fn + " returned while still holding the mutex");
                depth = 0;
                return;
        }
        if (api.lock_failed) {
                if (ret != CAT_STATUS_ERROR_MUTEX_LOCK)
                        mon.fail(e_lock_tag(), "lock-failure-not-reported", fn + " returned " + std::to_string(ret) + " although locking failed");
                else if (api.unlock_seen != 0)
                        mon.fail(e_lock_tag(), "unlock-after-failed-lock", fn + " called unlock although locking failed");
                else if (callbacks != api.cb0)
                        mon.fail(e_lock_tag(), "callback-after-failed-lock", fn + " invoked callbacks although locking failed");
                else if (api.have_hash && mem_hash() != api.memhash)
                        mon.fail(e_lock_tag(), "state-changed-after-failed-lock", fn + " modified the parser object or buffers although locking failed");
                return;
        }
        if (api.unlock_seen != 1) {
                mon.fail(e_lock_tag(), "unlock-call-count", fn + " called unlock " + std::to_string(api.unlock_seen) + " times after a successful lock");
                return;
        }
        if (api.unlock_failed) {
                if (ret != CAT_STATUS_ERROR_MUTEX_UNLOCK)
                        mon.fail(e_lock_tag(), "unlock-failure-not-reported", fn + " returned " + std::to_string(ret) + " although unlocking failed");
                return;
        }
        if (ret == CAT_STATUS_ERROR_MUTEX_LOCK || ret == CAT_STATUS_ERROR_MUTEX_UNLOCK)
                mon.fail(e_lock_tag(), "spurious-mutex-error", fn + " returned a mutex error although lock and unlock succeeded");
}

int Engine::api_service()
{
        begin_api("cat_service");
        int r = cat_service(obj);
        end_api(r, true);
        return r;
}
int Engine::api_busy()
{
        begin_api("cat_is_busy");
        int r = cat_is_busy(obj);
        end_api(r, true);
        return r;
}
int Engine::api_hold()
{
        begin_api("cat_is_hold");
        int r = cat_is_hold(obj);
        end_api(r, true);
        return r;
}
int Engine::api_full()
{
        begin_api("cat_is_unsolicited_buffer_full");
        int r = cat_is_unsolicited_buffer_full(obj);
        end_api(r, true);
        return r;
}
int Engine::api_trigger(int cmd, int type)
{
        int r;
        // use all three entry points
        if (type == CT_READ && (es.ring_pushes & 1)) {
                begin_api("cat_trigger_unsolicited_read");
                r = cat_trigger_unsolicited_read(obj, cmd_ptr[(size_t)cmd]);
        } else if (type == CT_TEST && (es.ring_pushes & 1)) {
                begin_api("cat_trigger_unsolicited_test");
                r = cat_trigger_unsolicited_test(obj, cmd_ptr[(size_t)cmd]);
        } else {
                begin_api("cat_trigger_unsolicited_event");
                r = cat_trigger_unsolicited_event(obj, cmd_ptr[(size_t)cmd], (cat_cmd_type)type);
        }
        es.ring_pushes++;
        end_api(r, true);
        return r;
}
int Engine::api_hexit(int status)
{
        begin_api("cat_hold_exit");
        int r = cat_hold_exit(obj, status == 0 ? CAT_STATUS_OK : CAT_STATUS_ERROR);
        end_api(r, true);
        return r;
}
int Engine::api_buffered(int cmd, int type)
{
        // documented as not protected by the mutex: the caller (we) provides the exclusion
        bool unprot = ls_on && depth == 0;
        if (unprot)
                ls_protect(false);
        int r = cat_is_unsolicited_event_buffered(obj, cmd_ptr[(size_t)cmd], (cat_cmd_type)type);
        if (unprot)
                ls_protect(true);
        return r;
}
int Engine::api_processed(int fsm)
{
        bool unprot = ls_on && depth == 0;
        if (unprot)
                ls_protect(false);
        const cat_command *c = cat_get_processed_command(obj, (cat_fsm_type)fsm);
        if (unprot)
                ls_protect(true);
        if (!c)
                return -1;
        auto it = cmd_of.find(c);
        return it == cmd_of.end() ? -2 : it->second;
}

// ------------------------------------------------------------------ steps

void Engine::check_ro()
{
        if (mon.dead())
                return;
        for (size_t c = 0; c < plan.cmds.size(); c++)
                for (size_t v = 0; v < plan.cmds[c].vars.size(); v++)
                        if (plan.cmds[c].vars[v].access == ACC_RO &&
                            memcmp(var_mem[c][v].p, ro_shadow[c][v].data(), (size_t)plan.cmds[c].vars[v].size) != 0) {
                                mon.fail("C08", "read-only-variable-modified",
                                         "cmd " + std::to_string(c) + " var " + std::to_string(v) + " memory=" + hexenc(var_bytes((int)c, (int)v)) + " expected=" + hexenc(ro_shadow[c][v]));
                                return;
                        }
}

void Engine::cover()
{
        if (!opts.coverage || on_valgrind)
                return;
        int s[4] = {0, 0, 0, 0};
        bool unprot = ls_on && depth == 0;
        if (unprot)
                ls_protect(false);
        int ok = peek_state(obj, s);
        if (unprot)
                ls_protect(true);
        if (!ok) {
                es.peek_stub = true;
                return;
        }
        int rxr = rx_pos < rx.size();
        uint32_t js = (uint32_t)((s[0] + 1) & 0x3f) | (uint32_t)(s[1] & 0xf) << 6 | (uint32_t)(s[2] > 3 ? 3 : s[2]) << 10 | (uint32_t)(s[3] & 1) << 12 | (uint32_t)rxr << 13 |
                      (uint32_t)(tx_mode != 0) << 14 | (uint32_t)(rx_mode != 0) << 15;
        g_states.insert(js);
        if (prev_state >= 0)
                g_transitions.insert(((uint64_t)(uint32_t)prev_state << 32) | js);
        prev_state = (int)js;
}

void Engine::observers()
{
        if (!plan.observe || mon.viol.set() || !mon.model_ok())
                return;
        mon.on_busy(api_busy());
        mon.on_hold_query(api_hold());
        mon.on_processed(FSM_EV, api_processed(FSM_EV));
}

int Engine::service_once()
{
        if ((long)es.svc_calls >= opts.max_svc) {
                es.overrun = true;
                return CAT_STATUS_BUSY;
        }
        uint64_t cb0 = callbacks;
        // half-isolation (C03): with a shared buffer, the half of a state machine that has nothing to do
        // must not change during this call, whatever the other machine does
        bool iso = plan.shared && mon.model_ok() && !mon.viol.set() && !ls_on && !on_valgrind;
        bool ev_idle0 = false, cmd_idle0 = false, held0 = false;
        uint64_t acc0 = 0, rx0 = 0;
        if (iso) {
                ev_idle0 = mon.ev_idle();
                held0 = mon.held_unreleased();
                cmd_idle0 = !mon.line_pending() && !mon.partial_line() && !mon.held();
                acc0 = mon.st.events_accepted;
                rx0 = es.rx_bytes;
                if (ev_idle0)
                        iso_snap(iso_ev, evbuf, evcap);
                if (cmd_idle0 || held0)
                        iso_snap(iso_cmd, cmdbuf, cmdcap);
        }
        if (!plan.mutex)
                mon.on_service_begin();
        int st = api_service();
        es.svc_calls++;
        if (st == CAT_STATUS_OK)
                es.svc_ok++;
        log.add((uint64_t)0x800 + (uint64_t)(st & 0xff));
        note_fp(st == CAT_STATUS_OK ? 9 : 10);
        mon.on_service_end(st);
        if (other_on)
                other_step_hook();
        check_ro();
        if (iso && !mon.viol.set() && mon.model_ok()) {
                if (ev_idle0 && mon.st.events_accepted == acc0 && iso_differs(iso_ev, evbuf, evcap))
                        mon.fail("C03", "event-half-of-shared-buffer-touched", "the unsolicited half of the shared working buffer changed during a service call although no event was pending");
                else if (held0 && mon.held_unreleased() && iso_differs(iso_cmd, cmdbuf, cmdcap))
                        mon.fail("C03", "command-half-of-shared-buffer-touched", "the command half of the shared working buffer changed while the command was suspended (hold)");
                else if (cmd_idle0 && es.rx_bytes == rx0 && iso_differs(iso_cmd, cmdbuf, cmdcap))
                        mon.fail("C03", "command-half-of-shared-buffer-touched", "the command half of the shared working buffer changed although no command line was in progress and no byte was read");
                else
                        es.iso_checks++;
        }
        if (ls_on && g_ls_fault && !mon.dead()) {
                mon.fail(e_lock_tag(), "state-accessed-without-lock", "parser state or working buffer touched while the mutex was not held");
                g_ls_fault = 0;
        }
        // exact livelock detection: a BUSY call that made no callback and left object and
        // buffers unchanged can never make progress (outside a hold)
        // (not in giant worlds: hashing 100 KiB per call would cost more than the run)
        if (st == CAT_STATUS_BUSY && callbacks == cb0 && mon.model_ok() && !mon.held() && !mon.dead() && !on_valgrind && bufblk.size <= 16384) {
                uint64_t h = mem_hash();
                if (last_state_valid && h == last_state_hash)
                        mon.fail("C15", "livelock", "cat_service returned BUSY twice in a row without invoking any callback and without changing the parser object or buffers");
                last_state_hash = h;
                last_state_valid = true;
        } else
                last_state_valid = false;
        cover();
        observers();
        if ((es.svc_calls & 63) == 0 && GUARD) {
                std::string which;
                if (!guards_ok(which))
                        mon.fail("C03", "guard-bytes-overwritten", which, true);
        }
        if (st == CAT_STATUS_OK && plan.probe_ok && !mon.dead())
                probe();
        flush_yield();
        return st;
}

void Engine::probe()
{
        // one more call with the input forced not-ready and no other stimulus
        if ((long)es.svc_calls >= opts.max_svc)
                return;
        uint64_t app0 = app_callbacks, tx0 = es.tx_bytes + es.f_write_refused;
        force_rx_refuse = true;
        if (!plan.mutex)
                mon.on_service_begin();
        int st = api_service();
        force_rx_refuse = false;
        es.svc_calls++;
        es.probes++;
        log.add((uint64_t)0x900 + (uint64_t)(st & 0xff));
        mon.on_service_end(st);
        if (mon.dead())
                return;
        if (plan.lockfail >= 0 || plan.unlockfail >= 0) {
                if (st == CAT_STATUS_ERROR_MUTEX_LOCK || st == CAT_STATUS_ERROR_MUTEX_UNLOCK)
                        return;
        }
        if (st != CAT_STATUS_OK)
                mon.fail("C15", "probe-not-ok", "cat_service returned OK, but the immediately repeated call without new stimulus returned " + std::to_string(st));
        else if (app_callbacks != app0)
                mon.fail("C15", "probe-invoked-callback", "cat_service returned OK, but the immediately repeated call without new stimulus invoked a handler or variable callback");
        else if (es.tx_bytes + es.f_write_refused != tx0)
                mon.fail("C15", "probe-emitted-output", "cat_service returned OK, but the immediately repeated call without new stimulus wrote to the output");
        cover();
}

void Engine::do_trigger(int cmd, int type)
{
        int full = 99;
        if (plan.observe && !(plan.mutex && depth != 0) && !thr_mode)
                full = api_full();
        if (plan.mutex && depth != 0)
                return; // plans with a mutex never call locking APIs from handlers
        int r = api_trigger(cmd, type);
        log.add((uint64_t)0xA00 + (uint64_t)(r & 0xff));
        note_fp(11);
        if (r == CAT_STATUS_ERROR_BUFFER_FULL)
                es.f_queue_full++;
        last_state_valid = false;
        mon.on_trigger(cmd, type, r, full);
        if (plan.observe && !mon.dead() && depth == 0 && !thr_mode)
                mon.on_buffered(cmd, type, api_buffered(cmd, type));
}

void Engine::do_hexit(int status)
{
        if (plan.mutex && depth != 0)
                return;
        bool spurious = !mon.held();
        int r = api_hexit(status);
        log.add((uint64_t)0xB00 + (uint64_t)(r & 0xff));
        note_fp(12);
        if (spurious)
                es.f_spurious_api++;
        last_state_valid = false;
        mon.on_hexit(status, r);
}

long Engine::drain_bound()
{
        // linear in table size, line length and number of pending lines / events
        long ncmd = (long)plan.cmds.size();
        long cap = (long)std::max(cmdcap, evcap) + 8;
        long maxscript = 1, maxvars = 1;
        for (auto &c : plan.cmds) {
                for (int k = 0; k < 4; k++)
                        maxscript = std::max(maxscript, (long)c.script[k].size() + 1);
                maxvars = std::max(maxvars, (long)c.vars.size() + 1);
        }
        long pending = (long)(rx.size() - rx_pos);
        long lines = 1;
        for (size_t i = rx_pos; i < rx.size(); i++)
                lines += rx[i] == '\n';
        long per_line = 4 * (ncmd + 4) + maxscript * (maxvars + 3 * cap + 8) + ncmd * 4 * (cap + 6);
        long per_event = maxscript * (maxvars + 3 * cap + 8) + 8;
        return 64 + 4 * (pending * (ncmd + 2) + (lines + 1) * per_line + ((long)plan.qcap + 1) * per_event);
}

void Engine::drain()
{
        es.drains++;
        rx_mode = 0;
        tx_mode = 0;
        draining = true;
        if (mon.held_unreleased())
                do_hexit(0);
        long bound = drain_bound();
        long n = 0;
        int st = CAT_STATUS_BUSY;
        while (n < bound) {
                st = service_once();
                n++;
                if (st == CAT_STATUS_OK || stop_now() || es.overrun)
                        break;
                // a hold that starts during the drain is released at once (faults have stopped)
                if (mon.model_ok() && mon.held_unreleased())
                        do_hexit(0);
        }
        if ((uint64_t)n > es.drain_calls_max)
                es.drain_calls_max = (uint64_t)n;
        draining = false;
        if (mon.viol.set() || !mon.model_ok())
                return;
        if (es.overrun)
                return; // the run hit the global step budget: no verdict
        if (st != CAT_STATUS_OK) {
                if (opts.liveness)
                        mon.fail("C15", "no-quiescence-within-bound", "input exhausted and output accepting, but cat_service did not return OK within " + std::to_string(bound) +
                                                                          " calls (last status " + std::to_string(st) + ")");
                return;
        }
        if (rx_pos < rx.size() && opts.liveness) {
                mon.fail("C15", "ok-with-input-pending", "cat_service returned OK although input bytes are available and readable");
                return;
        }
        mon.finish(true);
}

void Engine::exec(const Op &o)
{
        es.ops++;
        log.add((uint64_t)0xC00 + (uint64_t)o.kind);
        switch (o.kind) {
        case OP_IN:
                rx += o.data;
                last_state_valid = false;
                break;
        case OP_SVC:
                for (int64_t i = 0; i < o.a && !stop_now() && !es.overrun; i++)
                        service_once();
                break;
        case OP_SVCQ:
                for (int64_t i = 0; i < o.a && !stop_now() && !es.overrun; i++)
                        if (service_once() == CAT_STATUS_OK)
                                break;
                break;
        case OP_QUIESCE:
                // until nothing is left to do at all: input consumed and OK, or a command is held
                // (not yet released) with the event side idle
                for (int64_t i = 0; i < o.a && !stop_now() && !es.overrun; i++) {
                        int st = service_once();
                        if (st == CAT_STATUS_OK && rx_pos >= rx.size())
                                break;
                        if (mon.model_ok() && mon.held_unreleased() && !mon.events_pending() && !mon.unit_open() && i > 8)
                                break;
                }
                break;
        case OP_RX_READY:
                rx_mode = 0;
                break;
        case OP_RX_STALL:
                rx_mode = 1;
                rx_stall = (long)o.a;
                rx_skip = (long)o.b;
                break;
        case OP_RX_PAT:
                rx_mode = 2;
                rx_rng.reseed((uint64_t)o.a);
                rx_p = (int)o.b;
                rx_burst = (int)std::max<int64_t>(1, o.c);
                rx_left = 0;
                break;
        case OP_TX_OK:
                tx_mode = 0;
                break;
        case OP_TX_REFUSE:
                tx_mode = 1;
                tx_stall = (long)o.a;
                tx_skip = (long)o.c;
                tx_code = (int)o.b == 1 ? 0 : (int)o.b;
                break;
        case OP_TX_PAT:
                tx_mode = 2;
                tx_rng.reseed((uint64_t)o.a);
                tx_p = (int)o.b;
                tx_burst = (int)std::max<int64_t>(1, o.c);
                tx_code = (int)o.d == 1 ? 0 : (int)o.d;
                tx_left = 0;
                break;
        case OP_TRIG:
                do_trigger((int)o.a, (int)o.b);
                break;
        case OP_HEXIT:
                do_hexit((int)o.a);
                break;
        case OP_QBUF:
                if (!mon.dead())
                        mon.on_buffered((int)o.a, (int)o.b, api_buffered((int)o.a, (int)o.b));
                break;
        case OP_FLAG:
                if (mon.config_idle() || !opts.monitor) {
                        if (o.a == 0)
                                cmd_ptr[(size_t)o.b]->disable = o.c != 0;
                        else
                                groups[(size_t)o.b].disable = o.c != 0;
                        mon.on_flag((int)o.a, (int)o.b, (int)(o.c != 0));
                        es.f_flag_flip++;
                        last_state_valid = false;
                } else
                        es.f_flag_skipped++;
                break;
        case OP_PROBE:
                if (mon.quiet() && !mon.dead()) {
                        // only meaningful right after an OK status
                        if (service_once() == CAT_STATUS_OK && !plan.probe_ok && !mon.dead())
                                probe();
                }
                break;
        case OP_FRESH:
                ls_protect(false);
                if (on_valgrind)
                        VALGRIND_MAKE_MEM_UNDEFINED(obj, sizeof(struct cat_object));
                cat_init(obj, &desc, &io, plan.mutex ? &mtx : nullptr);
                if (ls_on && g_obj_p)
                        memcpy(g_obj_init, obj, sizeof(struct cat_object));
                ls_protect(true);
                std::fill(sp.begin(), sp.end(), (size_t)0);
                mon.on_fresh();
                last_state_valid = false;
                break;
        case OP_ROUNDTRIP:
                roundtrip((int)o.a, o.b ? (int)o.b - 1 : -1, (int)o.c, (long)o.d);
                break;
        case OP_SETVAR:
                if (mon.config_idle() || !opts.monitor) {
                        memcpy(var_mem[(size_t)o.a][(size_t)o.b].p, o.data.data(), o.data.size());
                        ro_shadow[(size_t)o.a][(size_t)o.b] = o.data;
                        mon.on_setvar((int)o.a, (int)o.b, o.data);
                        es.f_setvar++;
                }
                break;
        case OP_DRAIN:
                if (thr_mode)
                        join_others();
                drain();
                break;
        case OP_TRIGCB:
                cbtrig.push_back({(int)o.a, (int)o.b, (int)o.c, (long)o.d});
                break;
        case OP_PUMP:
                // long event histories in one op: the ring indices go round tens of thousands of times
                {
                std::vector<int> evc; // the event sources, starting with the one named by the op: consecutive events differ
                for (size_t q = 0; q < plan.cmds.size(); q++)
                        if (plan.cmds[(q + (size_t)o.a) % plan.cmds.size()].ev)
                                evc.push_back((int)((q + (size_t)o.a) % plan.cmds.size()));
                if (evc.empty())
                        evc.push_back((int)o.a);
                uint64_t n = 0;
                for (int64_t i = 0; i < o.c && !stop_now() && !es.overrun; i++) {
                        for (int64_t j = 0; j < o.d; j++, n++)
                                do_trigger(evc[(n / 2) % evc.size()], (n & 1) ? (int)o.b : (o.b == CT_READ ? CT_TEST : CT_READ));
                        for (int k = 0; k < 20000 && !stop_now() && !es.overrun; k++) {
                                int st = service_once();
                                // until quiescent; with a held command or a partial line in the way (never OK): until nothing more is
                                // expected from the events of this round, plus the calls that silent events need to leave the ring
                                if (mon.model_ok() ? (!mon.events_pending() && (st == CAT_STATUS_OK || k >= 8 + 4 * o.d)) : k >= 40)
                                        break;
                        }
                }
                }
                break;
        case OP_QAPI:
                if (mon.dead())
                        break;
                if (o.a == 0)
                        mon.on_busy(api_busy());
                else if (o.a == 1)
                        mon.on_hold_query(api_hold());
                else
                        api_full();
                break;
        }
        flush_yield();
}

// C07: AT<cmd>? -> take the text after "NAME=" -> scramble variables -> AT<cmd>=<text> -> compare.
// This oracle is model-free; it runs to its end even if the model-based monitor has already objected, and
// its own verdict (property C07) then takes precedence for this run.
void Engine::roundtrip(int ci, int evcmd, int evtype, long evdelay)
{
        const CmdSpec &cs = plan.cmds[(size_t)ci];
        auto c07 = [&](const char *rule, const std::string &detail) {
                if (mon.viol.set() && mon.viol.prop == "C07")
                        return;
                std::string also = mon.viol.set() ? " [the model-based monitor also reported " + mon.viol.prop + "/" + mon.viol.rule + "]" : "";
                mon.viol = Violation();
                mon.fail("C07", rule, detail + also, true);
        };
        auto quiesce = [&]() {
                long bound = drain_bound() + 64;
                for (long i = 0; i < bound * 4 && !es.overrun; i++) {
                        int st = service_once();
                        if (st == CAT_STATUS_OK && rx_pos >= rx.size())
                                return true;
                        if (mon.model_ok() && mon.held_unreleased())
                                do_hexit(0);
                }
                return false;
        };
        if (mon.viol.set() || !quiesce())
                return;
        std::vector<bytes> before;
        for (size_t v = 0; v < cs.vars.size(); v++)
                before.push_back(var_bytes(ci, (int)v));
        size_t out0 = out.size();
        rx += "AT" + cs.name + "?\n";
        if (evcmd >= 0) {
                // an event arrives while the READ line is in flight
                for (long i = 0; i < evdelay && !es.overrun; i++)
                        service_once();
                do_trigger(evcmd, evtype);
        }
        if (!quiesce())
                return;
        bytes resp = out.substr(out0);
        std::string prefix = "\n" + cs.name + "=";
        size_t a = resp.find(prefix);
        size_t b = a == bytes::npos ? bytes::npos : resp.find("\n", a + prefix.size());
        // a capacity that cannot hold the text is outside the property: READ may answer ERROR, and then there
        // is nothing to write back (but a data line that IS printed must round-trip)
        size_t need = cs.name.size() + 1;
        for (size_t v = 0; v < cs.vars.size(); v++) {
                std::string t;
                fmt_var(cs.vars[v], before[v], t);
                need += t.size() + (v + 1 < cs.vars.size() ? 1 : 0);
        }
        if (need > cmdcap - 1 && (a == bytes::npos || b == bytes::npos)) {
                es.roundtrip_skipped++;
                return;
        }
        if (a == bytes::npos || b == bytes::npos || resp.find("\nOK\n", b) == bytes::npos) {
                c07("read-response-missing", "AT" + vis(cs.name) + "? did not answer with a data line and OK: \"" + vis(resp) + "\"");
                return;
        }
        bytes text = resp.substr(a + prefix.size(), b - a - prefix.size());
        // scramble
        for (size_t v = 0; v < cs.vars.size(); v++) {
                const VarSpec &vs = cs.vars[v];
                bytes junk((size_t)vs.size, 0);
                for (auto &ch : junk)
                        ch = (char)fillrng.next();
                if (vs.type == T_STRING)
                        junk[(size_t)vs.size - 1] = 0;
                memcpy(var_mem[(size_t)ci][v].p, junk.data(), junk.size());
                ro_shadow[(size_t)ci][v] = junk;
                mon.on_setvar(ci, (int)v, junk);
        }
        out0 = out.size();
        rx += "AT" + cs.name + "=" + text + "\n";
        if (!quiesce())
                return;
        resp = out.substr(out0);
        if (resp.find("\nOK\n") == bytes::npos) {
                c07("write-of-read-text-rejected", "AT" + vis(cs.name) + "=" + vis(text) + " answered \"" + vis(resp) + "\"");
                return;
        }
        for (size_t v = 0; v < cs.vars.size(); v++) {
                const VarSpec &vs = cs.vars[v];
                bytes now = var_bytes(ci, (int)v);
                bool same;
                if (vs.type == T_STRING) {
                        same = strnlen(now.c_str(), now.size()) == strnlen(before[v].c_str(), before[v].size()) && strncmp(now.c_str(), before[v].c_str(), now.size()) == 0;
                } else
                        same = now == before[v];
                if (!same) {
                        c07("value-not-restored", "cmd " + vis(cs.name) + " var " + std::to_string(v) + " (type " + std::to_string(vs.type) + " size " + std::to_string(vs.size) +
                                                      "): before=" + hexenc(before[v]) + " after=" + hexenc(now) + " via text \"" + vis(text) + "\"");
                        return;
                }
        }
}

RunResult run_plan(const Plan &p, const RunOpts &o)
{
        RunResult r;
        RunOpts o2 = o;
        for (const Op &op : p.ops)
                if (op.kind == OP_PUMP) {
                        o2.max_svc += (long)std::min<int64_t>(op.c * op.d * 400, 200000000);
                        if (op.c * op.d > 5000)
                                o2.lockset = false; // two mprotect calls per lock would dominate a marathon run
                }
        Engine e(p, o2);
        E = &e;
        e.materialise();
        if (!o.monitor)
                e.mon.off = true;
        if (p.sched != 0 && p.mutex) {
                e.run_threads();
        } else
                for (const Op &op : p.ops) {
                        if (e.stop_now() || e.es.overrun)
                                break;
                        e.exec(op);
                }
        // C18: a unit that another unit's newline cut short stays partially emitted for ever. The finding belongs to C11;
        // what C18 says about it is decided by asking the library: service on (faults off, monitor silent) until
        // cat_is_busy reports OK - if it does, it does so with that unit half emitted.
        if (o.focus == "C18" && e.mon.viol.set() && e.mon.viol.rule == "unit-broken-by-newline" && p.sched == 0 && !e.es.overrun) {
                Violation first = e.mon.viol;
                e.mon.off = true;
                e.tx_mode = 0;
                e.rx_mode = 0;
                for (int i = 0; i < 4000; i++) {
                        e.api_service();
                        if (e.api_busy() == CAT_STATUS_OK) {
                                e.mon.viol.prop = "C18,C11";
                                e.mon.viol.rule = "busy-ok-with-abandoned-unit";
                                e.mon.viol.detail = "cat_is_busy returned OK after an output unit had been abandoned half-way (" + first.detail + ")";
                                break;
                        }
                }
        }
        if (e.mon.stray)
                e.mon.classify_stray();
        e.mon.flush_deferred();
        if (!e.mon.viol.set() && GUARD) {
                std::string which;
                if (!e.guards_ok(which)) {
                        e.mon.desync = false;
                        e.mon.fail("C03", "guard-bytes-overwritten", which, true);
                }
        }
        if (e.ls_on && g_ls_fault && !e.mon.viol.set())
                e.mon.fail(e_lock_tag(), "state-accessed-without-lock", "parser state or working buffer touched while the mutex was not held", true);
        e.es.thread_switches = e.switches;
        e.es.blocked_on_mutex = e.blocked_on_mutex;
        r.viol = e.mon.viol;
        r.soft_other = e.mon.soft_other;
        r.mon = e.mon.st;
        r.eng = e.es;
        r.hash = e.log.h;
        r.sched_fp = e.fp.h;
        r.out = e.out;
        r.cmd_units = e.mon.cmd_units;
        r.ev_units = e.mon.ev_units;
        r.cmd_handlers = e.mon.cmd_handlers;
        r.ev_handlers = e.mon.ev_handlers;
        r.desync = e.mon.desync;
        for (size_t c = 0; c < p.cmds.size(); c++)
                for (size_t v = 0; v < p.cmds[c].vars.size(); v++)
                        r.final_vars.push_back(e.var_bytes((int)c, (int)v));
        E = nullptr;
        return r;
}
