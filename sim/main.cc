// sim: worker / replay binary. One binary per (queue capacity, sanitizer mode).
//
//   sim run --prop C01 --seed S --start A --count N --stride K --out DIR --tag T
//   sim replay FILE            (exit 0: holds, 1: violation reproduced, 2: error)
//   sim emit PROP SEED IDX     (print the plan)
//   sim shrink FILE OUTFILE [--crash]   (minimise a failing plan; --crash: each candidate in a forked child)
#include "check.h"
#include "gen.h"
#include "shrink.h"
#include <csignal>
#include <fcntl.h>
#include <cstdlib>
#include <map>
#include <sys/wait.h>
#include <unistd.h>

static volatile uint64_t g_cur_idx = 0;
static volatile int g_in_run = 0;

static void crash_line(const char *what)
{
        char buf[128];
        int n = snprintf(buf, sizeof buf, "\nCRASH idx=%llu what=%s\n", (unsigned long long)g_cur_idx, what);
        if (n > 0)
                (void)!write(1, buf, (size_t)n);
}

static void on_alarm(int sig)
{
        (void)sig;
        // a single run (or one fault-enumerated history) that does not finish: cat_service never returned
        crash_line("TIMEOUT");
        _exit(71);
}

static void on_signal(int sig)
{
        crash_line(sig == SIGSEGV ? "SIGSEGV" : sig == SIGABRT ? "SIGABRT" : sig == SIGBUS ? "SIGBUS" : sig == SIGFPE ? "SIGFPE" : "SIGNAL");
        _exit(70);
}

#ifdef SIM_ASAN
extern "C" void __sanitizer_set_death_callback(void (*)(void));
extern "C" __attribute__((used)) const char *__asan_default_options() { return "exitcode=77:detect_leaks=0:abort_on_error=0:allocator_may_return_null=1:handle_segv=1"; }
extern "C" __attribute__((used)) const char *__ubsan_default_options() { return "halt_on_error=1:exitcode=77:print_stacktrace=1"; }
static void asan_death() { crash_line("SANITIZER"); }
#endif

static void install_handlers()
{
        struct sigaction sa;
        memset(&sa, 0, sizeof sa);
        sa.sa_handler = on_signal;
#ifndef SIM_ASAN
        sigaction(SIGSEGV, &sa, nullptr);
        sigaction(SIGBUS, &sa, nullptr);
#endif
        sigaction(SIGABRT, &sa, nullptr);
        struct sigaction sal;
        memset(&sal, 0, sizeof sal);
        sal.sa_handler = on_alarm;
        sigaction(SIGALRM, &sal, nullptr);
        sigaction(SIGFPE, &sa, nullptr);
        sigaction(SIGILL, &sa, nullptr);
#ifdef SIM_ASAN
        __sanitizer_set_death_callback(asan_death);
#endif
}

// ---------------------------------------------------------------- stats

struct Agg {
        std::map<std::string, uint64_t> c;
        void add(const char *k, uint64_t v) { c[k] += v; }
        void mx(const char *k, uint64_t v)
        {
                if (v > c[k])
                        c[k] = v;
        }
};

static void accumulate(Agg &a, const Outcome &o)
{
        const MonStats &m = o.res.mon;
        const EngStats &e = o.res.eng;
        a.add("runs", 1);
        a.add("engine_executions", o.runs);
        a.add("twin_pairs", o.twin_pairs);
        a.add("enum_points", o.enum_points);
        a.add("svc_calls", e.svc_calls);
        a.add("svc_ok", e.svc_ok);
        a.add("probes", e.probes);
        a.add("rx_bytes", e.rx_bytes);
        a.add("tx_bytes", e.tx_bytes);
        a.add("ops", e.ops);
        a.add("drains", e.drains);
        a.mx("drain_calls_max", e.drain_calls_max);
        a.add("overrun", e.overrun);
        a.add("peek_stub", e.peek_stub);
        a.add("desync_unspecified", o.res.desync);
        a.add("F_read_refused", e.f_read_refused);
        a.add("F_read_scribble", e.f_read_scribble);
        a.add("F_write_refused", e.f_write_refused);
        a.add("F_write_refused_negative_code", e.f_write_refused_neg);
        a.add("F_write_refused_on_newline_byte", e.f_write_refused_first);
        a.add("F_lock_fail", e.f_lock_fail);
        a.add("F_unlock_fail", e.f_unlock_fail);
        a.add("F_var_callback_fail", e.f_varcb_fail);
        a.add("F_handler_error_code", e.f_handler_err);
        a.add("F_handler_invalid_code", e.f_handler_invalid);
        a.add("F_queue_full", e.f_queue_full);
        a.add("F_flag_flip", e.f_flag_flip);
        a.add("F_flag_skipped_mid_line", e.f_flag_skipped);
        a.add("F_spurious_hold_exit", e.f_spurious_api);
        a.add("F_setvar", e.f_setvar);
        a.add("lock_calls", e.lock_calls);
        a.add("lockset_switches", e.lockset_switches);
        a.add("thread_switches", e.thread_switches);
        a.add("half_isolation_checks", e.iso_checks);
        a.add("roundtrips_skipped_text_does_not_fit", e.roundtrip_skipped);
        a.add("P_thread_blocked_on_mutex", e.blocked_on_mutex);
        a.add("lines", m.lines);
        a.add("blank_lines", m.blank_lines);
        a.add("lines_ok", m.lines_ok);
        a.add("lines_error", m.lines_error);
        a.add("handler_calls", m.handler_calls);
        a.add("var_callbacks", m.var_callbacks);
        a.add("units", m.units);
        a.add("result_codes", m.result_codes);
        a.add("list_lines", m.list_lines);
        a.add("events_accepted", m.events_accepted);
        a.add("events_rejected", m.events_rejected);
        a.add("events_silent", m.events_silent);
        a.add("events_finished", m.events_finished);
        a.add("trig_must_accept", m.trig_must_accept);
        a.add("trig_must_reject", m.trig_must_reject);
        a.add("trig_either", m.trig_either);
        a.add("holds", m.holds);
        a.add("releases_api", m.releases_api);
        a.add("releases_handler", m.releases_handler);
        a.add("spurious_releases", m.spurious_releases);
        a.add("busy_samples", m.busy_samples);
        a.add("busy_ok_samples", m.busy_ok_samples);
        a.add("hold_samples", m.hold_samples);
        a.add("buffered_samples", m.buffered_samples);
        a.add("buffered_must", m.buffered_must);
        a.add("var_compares", m.var_compares);
        a.add("P_event_unit_between_list_lines", m.ev_unit_between_list_lines);
        a.add("P_event_unit_during_hold", m.ev_unit_during_hold);
        a.add("P_both_fsm_want_output", m.both_want_output);
        a.add("P_args_at_capacity_minus_1", m.args_at_cap_m1);
        a.add("P_args_at_capacity", m.args_at_cap);
        a.add("P_number_over_20_digits", m.long_numbers);
        a.add("P_event_ring_wrapped_3_laps", m.events_accepted >= 3 * (uint64_t)engine_qcap());
        a.add("P_ambiguous_abbreviation_then_eq", m.ambiguous_eq);
        for (int t = 1; t <= 20; t++) {
                char k[32];
                snprintf(k, sizeof k, "lines_verdict_C%02d", t);
                a.add(k, m.tags[t]);
        }
}

static std::string agg_json(const Agg &a)
{
        std::string s = "{";
        bool first = true;
        for (auto &kv : a.c) {
                if (!first)
                        s += ",";
                first = false;
                s += "\"" + kv.first + "\":" + std::to_string(kv.second);
        }
        return s + "}";
}

static std::string arg(int argc, char **argv, const char *name, const char *def)
{
        for (int i = 2; i + 1 < argc; i++)
                if (!strcmp(argv[i], name))
                        return argv[i + 1];
        return def;
}

static bool has_flag(int argc, char **argv, const char *name)
{
        for (int i = 2; i < argc; i++)
                if (!strcmp(argv[i], name))
                        return true;
        return false;
}

// run a candidate in a forked child: true if it crashes or reports the same violation
static bool fails_in_child(const std::string &prop, const Plan &c, const std::string &rule, bool want_crash)
{
        fflush(stdout);
        pid_t pid = fork();
        if (pid == 0) {
                int fd = open("/dev/null", 1);
                if (fd >= 0) {
                        dup2(fd, 1);
                        dup2(fd, 2);
                }
                Outcome o = check_plan(prop, c);
                _exit(o.viol.set() && o.viol.rule == rule ? 1 : 0);
        }
        int st = 0;
        waitpid(pid, &st, 0);
        if (WIFSIGNALED(st))
                return want_crash;
        int code = WEXITSTATUS(st);
        if (code == 70 || code == 77)
                return want_crash;
        return !want_crash && code == 1;
}

#include <fcntl.h>

int main(int argc, char **argv)
{
        if (argc < 2) {
                fprintf(stderr, "usage: sim run|replay|emit|shrink ...\n");
                return 2;
        }
        std::string mode = argv[1];
        setvbuf(stdout, nullptr, _IOLBF, 0);
        if (mode == "info") {
                printf("qcap=%d asan=%d\n", engine_qcap(), (int)engine_asan());
                return 0;
        }
        if (mode == "emit") {
                if (argc < 5)
                        return 2;
                g_gen_thorough = arg(argc, argv, "--tier", "quick") == "thorough";
                Plan p = gen_plan(argv[2], strtoull(argv[3], nullptr, 10), strtoull(argv[4], nullptr, 10), engine_qcap());
                fputs(plan_print(p).c_str(), stdout);
                return 0;
        }
        if (mode == "replay") {
                if (argc < 3)
                        return 2;
                Plan p;
                std::string err;
                if (!plan_load(argv[2], p, err)) {
                        fprintf(stderr, "replay: %s\n", err.c_str());
                        return 2;
                }
                if (p.qcap != engine_qcap()) {
                        fprintf(stderr, "replay: plan needs queue capacity %d, this binary has %d\n", p.qcap, engine_qcap());
                        return 3;
                }
                install_handlers();
                std::string prop = arg(argc, argv, "--prop", p.prop.c_str());
                g_cur_idx = p.idx;
                alarm(prop == "C16" ? 600 : 300);
                Outcome o = check_plan(prop, p);
                alarm(0);
                printf("HASH %016llx\n", (unsigned long long)o.res.hash);
                if (has_flag(argc, argv, "--dump")) {
                        printf("OUT \"%s\"\nCMD_UNITS \"%s\"\nEV_UNITS \"%s\"\nCMD_HANDLERS\n%sEV_HANDLERS\n%s", vis(o.res.out, 4000).c_str(), vis(o.res.cmd_units, 4000).c_str(),
                               vis(o.res.ev_units, 4000).c_str(), o.res.cmd_handlers.c_str(), o.res.ev_handlers.c_str());
                        printf("svc_calls=%llu desync=%d lines=%llu units=%llu overrun=%d\n", (unsigned long long)o.res.eng.svc_calls, (int)o.res.desync, (unsigned long long)o.res.mon.lines,
                               (unsigned long long)o.res.mon.units, (int)o.res.eng.overrun);
                }
                if (o.other.set())
                        printf("NOTE other-property finding: property=%s rule=%s %s\n", o.other.prop.c_str(), o.other.rule.c_str(), o.other.detail.c_str());
                if (o.viol.set()) {
                        printf("REPRODUCED property=%s rule=%s at_service_call=%llu\n  %s\n", o.viol.prop.c_str(), o.viol.rule.c_str(), (unsigned long long)o.viol.at_svc, o.viol.detail.c_str());
                        return 1;
                }
                printf("HOLDS (no violation of %s on this plan)\n", prop.c_str());
                return 0;
        }
        if (mode == "shrink") {
                if (argc < 4)
                        return 2;
                Plan p;
                std::string err;
                if (!plan_load(argv[2], p, err)) {
                        fprintf(stderr, "shrink: %s\n", err.c_str());
                        return 2;
                }
                bool crash = has_flag(argc, argv, "--crash");
                std::string prop = arg(argc, argv, "--prop", p.prop.c_str());
                std::string rule = arg(argc, argv, "--rule", "");
                install_handlers();
                int reruns = 0;
                FailPred pred = [&](const Plan &c) { return fails_in_child(prop, c, rule, crash); };
                Plan m = shrink_plan(p, pred, crash ? 400 : 1500, &reruns);
                plan_save(argv[3], m);
                printf("SHRUNK ops %zu -> %zu cmds %zu -> %zu reruns %d\n", p.ops.size(), m.ops.size(), p.cmds.size(), m.cmds.size(), reruns);
                return 0;
        }
        if (mode != "run")
                return 2;

        std::string prop = arg(argc, argv, "--prop", "C01");
        std::string profile = arg(argc, argv, "--profile", prop.c_str());
        uint64_t seed = strtoull(arg(argc, argv, "--seed", "1").c_str(), nullptr, 10);
        uint64_t start = strtoull(arg(argc, argv, "--start", "0").c_str(), nullptr, 10);
        uint64_t count = strtoull(arg(argc, argv, "--count", "100").c_str(), nullptr, 10);
        uint64_t stride = strtoull(arg(argc, argv, "--stride", "1").c_str(), nullptr, 10);
        std::string outdir = arg(argc, argv, "--out", ".");
        std::string tag = arg(argc, argv, "--tag", "w");
        uint64_t max_viol = strtoull(arg(argc, argv, "--max-viol", "3").c_str(), nullptr, 10);
        bool determinism = has_flag(argc, argv, "--twice");
        g_gen_thorough = arg(argc, argv, "--tier", "quick") == "thorough";
        install_handlers();

        Agg agg;
        uint64_t nviol = 0, nother = 0, nondet = 0;
        std::string hashes_path = outdir + "/hashes." + tag + ".bin";
        FILE *hf = fopen(hashes_path.c_str(), "wb");
        std::vector<std::string> samples;
        // the index of the run in progress is also kept in a side file: some sanitizer exits do not
        // reach the death callback that prints the CRASH line
        int curfd = open((outdir + "/cur." + tag).c_str(), O_CREAT | O_WRONLY | O_TRUNC, 0644);
        for (uint64_t n = 0; n < count; n++) {
                uint64_t idx = start + n * stride;
                g_cur_idx = idx;
                if (curfd >= 0) {
                        uint64_t rec[2] = {idx, 1};
                        (void)!pwrite(curfd, rec, sizeof rec, 0);
                }
                Plan p = gen_plan(profile, seed, idx, engine_qcap());
                g_in_run = 1;
                // watchdog: a run normally takes milliseconds; marathons and giant worlds take seconds, more on a loaded machine
                bool heavy_plan = p.buf_size > 65536;
                for (auto &op : p.ops)
                        heavy_plan |= op.kind == OP_PUMP && op.c * op.d > 5000;
                alarm(prop == "C16" ? 600 : heavy_plan ? 300 : 30);
                Outcome o = check_plan(prop, p);
                alarm(0);
                g_in_run = 0;
                accumulate(agg, o);
                {
                        // world shapes of this plan (reach of the rare generator knobs)
                        uint64_t pumped = 0, empty_text = 0;
                        for (auto &op : p.ops)
                                if (op.kind == OP_PUMP)
                                        pumped += (uint64_t)(op.c * std::min<int64_t>(op.d, p.qcap));
                        for (auto &c : p.cmds)
                                for (int k = 0; k < 4; k++)
                                        for (auto &st : c.script[k])
                                                empty_text += st.act == A_SETTEXT && st.text.empty();
                        agg.add("W_buffer_over_64KiB", p.buf_size > 65536);
                        agg.add("W_capacity_over_255", p.cmd_cap() > 255 && p.buf_size <= 65536);
                        agg.add("W_table_255_or_more_commands", p.registered_count() >= 255);
                        agg.add("W_pump_256_or_more_events", pumped >= 256 && pumped < 65536);
                        agg.add("W_marathon_65536_or_more_events", pumped >= 65536);
                        agg.add("W_empty_handler_text", empty_text > 0);
                        agg.add("W_second_parser_instance", p.other);
                }
                bool nontrivial = (o.res.mon.lines_ok + o.res.mon.lines_error + o.res.mon.events_finished) > 0;
                if (hf) {
                        uint64_t rec[3] = {idx, o.res.hash, (uint64_t)nontrivial};
                        fwrite(rec, sizeof rec, 1, hf);
                        // enumerated fault positions are cases of their own: key = run index in the low 24 bits of the top
                        for (auto &vh : o.variant_hashes) {
                                uint64_t r2[3] = {(idx << 36) | (1ULL << 35) | (vh.first & 0x7ffffffffULL), vh.second, (uint64_t)nontrivial};
                                fwrite(r2, sizeof r2, 1, hf);
                        }
                }
                if (determinism) {
                        Outcome o2 = check_plan(prop, p);
                        if (o2.res.hash != o.res.hash || o2.viol.set() != o.viol.set()) {
                                nondet++;
                                printf("NONDETERMINISM idx=%llu hash %016llx vs %016llx\n", (unsigned long long)idx, (unsigned long long)o.res.hash, (unsigned long long)o2.res.hash);
                        }
                }
                if (samples.size() < 3 && nontrivial && (n % 7) == 3) {
                        std::string s = "{\"idx\":" + std::to_string(idx) + ",\"commands\":" + std::to_string(p.cmds.size()) + ",\"capacity\":" + std::to_string(p.cmd_cap()) +
                                        ",\"ops\":" + std::to_string(p.ops.size()) + ",\"input\":\"";
                        bytes all;
                        for (auto &op : p.ops)
                                if (op.kind == OP_IN)
                                        all += op.data;
                        s += json_escape(vis(all, 160)) + "\",\"output\":\"" + json_escape(vis(o.res.out, 160)) + "\"}";
                        samples.push_back(s);
                }
                if (o.other.set()) {
                        nother++;
                        if (nother <= 3)
                                printf("NOTE idx=%llu other-property finding: property=%s rule=%s %s\n", (unsigned long long)idx, o.other.prop.c_str(), o.other.rule.c_str(), o.other.detail.c_str());
                }
                if (!o.viol.set())
                        continue;
                nviol++;
                if (nviol > max_viol)
                        continue;
                // gate 1: same plan again in-process must fail identically
                const Plan &fp = o.has_fail_plan ? o.fail_plan : p;
                Outcome again = check_plan(prop, fp);
                if (!again.viol.set() || again.viol.rule != o.viol.rule || again.res.hash != o.res.hash) {
                        printf("HARNESS-ERROR idx=%llu violation not reproducible in-process (rule %s, then %s)\n", (unsigned long long)idx, o.viol.rule.c_str(),
                               again.viol.set() ? again.viol.rule.c_str() : "none");
                        nondet++;
                        continue;
                }
                // minimise: keep candidates that fail with the same property and rule
                int reruns = 0;
                std::string rule = o.viol.rule;
                // candidates run in forked children: a candidate may crash (assert / sanitizer) without
                // taking the worker down; a crashing candidate is simply not "the same failure"
                FailPred pred = [&](const Plan &c) { return fails_in_child(prop, c, rule, false); };
                Plan m = shrink_plan(fp, pred, 1500, &reruns);
                if (!fails_in_child(prop, m, rule, false))
                        m = fp;
                Outcome om = check_plan(prop, m);
                char name[256];
                snprintf(name, sizeof name, "%s/%s-%s-q%d-seed%llu-idx%llu.plan", outdir.c_str(), prop.c_str(), rule.c_str(), engine_qcap(), (unsigned long long)seed, (unsigned long long)idx);
                plan_save(name, m);
                std::string full = std::string(name) + ".full";
                plan_save(full, fp);
                printf("FOUND property=%s rule=%s idx=%llu replay=%s ops=%zu->%zu reruns=%d detail=%s\n", prop.c_str(), rule.c_str(), (unsigned long long)idx, name, fp.ops.size(), m.ops.size(),
                       reruns, json_escape(om.viol.set() ? om.viol.detail : o.viol.detail).c_str());
        }
        if (hf)
                fclose(hf);
        if (curfd >= 0) {
                uint64_t rec[2] = {0, 0};
                (void)!pwrite(curfd, rec, sizeof rec, 0);
                close(curfd);
        }
        std::string js = "{\"tag\":\"" + tag + "\",\"qcap\":" + std::to_string(engine_qcap()) + ",\"asan\":" + std::to_string((int)engine_asan()) + ",\"violations\":" + std::to_string(nviol) +
                         ",\"other_property_findings\":" + std::to_string(nother) + ",\"nondeterminism\":" + std::to_string(nondet) + ",\"counters\":" + agg_json(agg) + ",\"states\":[";
        bool first = true;
        for (uint32_t s : g_states) {
                if (!first)
                        js += ",";
                first = false;
                js += std::to_string(s);
        }
        js += "],\"transitions\":[";
        first = true;
        for (uint64_t t : g_transitions) {
                if (!first)
                        js += ",";
                first = false;
                js += std::to_string(t);
        }
        js += "],\"samples\":[";
        for (size_t i = 0; i < samples.size(); i++)
                js += (i ? "," : "") + samples[i];
        js += "]}";
        printf("STATS %s\n", js.c_str());
        return nondet ? 2 : 0;
}
