#include "model.h"
#include <algorithm>

void ModelState::init(const Plan &p)
{
        plan = &p;
        vals.assign(p.cmds.size(), {});
        havoc.assign(p.cmds.size(), {});
        cmd_dis.assign(p.cmds.size(), 0);
        grp_dis.assign(p.groups.size(), 0);
        for (size_t i = 0; i < p.cmds.size(); i++) {
                cmd_dis[i] = p.cmds[i].disable;
                for (auto &v : p.cmds[i].vars) {
                        vals[i].push_back(v.init);
                        havoc[i].push_back(0);
                }
        }
        for (size_t g = 0; g < p.groups.size(); g++)
                grp_dis[g] = p.groups[g].disable;
}

bool ModelState::disabled(int cmd) const
{
        const CmdSpec &c = plan->cmds[(size_t)cmd];
        if (!c.registered)
                return true;
        return cmd_dis[(size_t)cmd] || grp_dis[(size_t)c.group];
}

// ---------------------------------------------------------------- formatting

static uint32_t le_u(const bytes &b, int size)
{
        uint32_t v = 0;
        for (int i = size - 1; i >= 0; i--)
                v = (v << 8) | (unsigned char)b[(size_t)i];
        return v;
}

bool fmt_var(const VarSpec &v, const bytes &val, std::string &out)
{
        char t[32];
        bool wo = v.access == ACC_WO;
        out.clear();
        switch (v.type) {
        case T_INT: {
                if (v.size != 1 && v.size != 2 && v.size != 4)
                        return false;
                uint32_t u = le_u(val, v.size);
                int64_t s = v.size == 1 ? (int64_t)(int8_t)u : v.size == 2 ? (int64_t)(int16_t)u : (int64_t)(int32_t)u;
                if (wo)
                        s = 0;
                snprintf(t, sizeof t, "%lld", (long long)s);
                out = t;
                return true;
        }
        case T_UINT: {
                if (v.size != 1 && v.size != 2 && v.size != 4)
                        return false;
                uint32_t u = wo ? 0 : le_u(val, v.size);
                snprintf(t, sizeof t, "%llu", (unsigned long long)u);
                out = t;
                return true;
        }
        case T_HEX: {
                if (v.size != 1 && v.size != 2 && v.size != 4)
                        return false;
                uint32_t u = wo ? 0 : le_u(val, v.size);
                snprintf(t, sizeof t, "0x%0*llX", v.size * 2, (unsigned long long)u);
                out = t;
                return true;
        }
        case T_BUFHEX:
                for (int i = 0; i < v.size; i++) {
                        snprintf(t, sizeof t, "%02X", wo ? 0 : (unsigned char)val[(size_t)i]);
                        out += t;
                }
                return true;
        case T_STRING:
                out = "\"";
                if (!wo)
                        for (int i = 0; i < v.size; i++) {
                                char c = val[(size_t)i];
                                if (c == 0)
                                        break;
                                if (c == '\\')
                                        out += "\\\\";
                                else if (c == '"')
                                        out += "\\\"";
                                else if (c == '\n')
                                        out += "\\n";
                                else
                                        out += c;
                        }
                out += "\"";
                return true;
        }
        return false;
}

bool fmt_info(const VarSpec &v, std::string &out)
{
        std::string ty;
        bool num = v.type == T_INT || v.type == T_UINT || v.type == T_HEX;
        if (num && v.size != 1 && v.size != 2 && v.size != 4)
                return false;
        switch (v.type) {
        case T_INT:
                ty = "INT" + std::to_string(v.size * 8);
                break;
        case T_UINT:
                ty = "UINT" + std::to_string(v.size * 8);
                break;
        case T_HEX:
                ty = "HEX" + std::to_string(v.size * 8);
                break;
        case T_BUFHEX:
                ty = "HEXBUF";
                break;
        case T_STRING:
                ty = "STRING";
                break;
        default:
                return false;
        }
        static const char *acc[3] = {"RW", "RO", "WO"};
        out = "<";
        if (v.named)
                out += v.name + ":";
        out += ty + "[" + acc[v.access] + "]>";
        return true;
}

// ---------------------------------------------------------------- argument decoding

// compare decimal digit strings as numbers (arbitrary precision)
static int cmp_digits(std::string a, std::string b)
{
        a.erase(0, std::min(a.find_first_not_of('0'), a.size()));
        b.erase(0, std::min(b.find_first_not_of('0'), b.size()));
        if (a.size() != b.size())
                return a.size() < b.size() ? -1 : 1;
        return a < b ? -1 : a > b ? 1 : 0;
}

static int hexval(char c)
{
        c = up(c);
        if (c >= '0' && c <= '9')
                return c - '0';
        if (c >= 'A' && c <= 'F')
                return c - 'A' + 10;
        return -1;
}

static void store_le(bytes &b, int size, uint64_t v)
{
        for (int i = 0; i < size; i++)
                b[(size_t)i] = (char)((v >> (8 * i)) & 0xff);
}

static uint64_t small_dec(const std::string &d)
{
        uint64_t v = 0;
        for (char c : d)
                v = v * 10 + (uint64_t)(c - '0');
        return v;
}

int parse_var(const VarSpec &v, const bytes &cur, const bytes &args, size_t &pos, ParseOut &out)
{
        out = ParseOut();
        size_t n = args.size();
        auto at_end = [&](size_t p) { return p >= n; };
        bool ro = v.access == ACC_RO;
        bool size_ok = v.size == 1 || v.size == 2 || v.size == 4;
        switch (v.type) {
        case T_INT:
        case T_UINT: {
                bool neg = false;
                size_t p = pos;
                if (v.type == T_INT && !at_end(p) && (args[p] == '+' || args[p] == '-')) {
                        neg = args[p] == '-';
                        p++;
                }
                size_t d0 = p;
                while (!at_end(p) && args[p] >= '0' && args[p] <= '9')
                        p++;
                if (p == d0)
                        return -1;
                if (!at_end(p) && args[p] != ',')
                        return -1;
                std::string digits = args.substr(d0, p - d0);
                int r = at_end(p) ? 0 : 1;
                pos = p + 1;
                if (ro) {
                        // grammar only; beyond the 64-bit accumulator the verdict is not specified by any property
                        const char *lim = v.type == T_INT ? "9223372036854775807" : "18446744073709551615";
                        if (cmp_digits(digits, lim) > 0) {
                                out.unspecified = true;
                                return -1;
                        }
                        out.wsize = 0;
                        return r;
                }
                if (!size_ok)
                        return -1;
                static const char *smax[5] = {"", "127", "32767", "", "2147483647"};
                static const char *smin[5] = {"", "128", "32768", "", "2147483648"};
                static const char *umax[5] = {"", "255", "65535", "", "4294967295"};
                const char *lim = v.type == T_UINT ? umax[v.size] : neg ? smin[v.size] : smax[v.size];
                if (cmp_digits(digits, lim) > 0)
                        return -1;
                uint64_t mag = small_dec(digits.substr(std::min(digits.find_first_not_of('0'), digits.size())));
                uint64_t val = neg ? (uint64_t)(-(int64_t)mag) : mag;
                out.store = true;
                out.newval = cur;
                store_le(out.newval, v.size, val);
                out.wsize = v.size;
                return r;
        }
        case T_HEX: {
                size_t p = pos;
                if (at_end(p) || args[p] != '0')
                        return -1;
                p++;
                if (at_end(p) || up(args[p]) != 'X')
                        return -1;
                p++;
                size_t d0 = p;
                while (!at_end(p) && hexval(args[p]) >= 0)
                        p++;
                if (p == d0)
                        return -1;
                if (!at_end(p) && args[p] != ',')
                        return -1;
                std::string digits = args.substr(d0, p - d0);
                int r = at_end(p) ? 0 : 1;
                pos = p + 1;
                digits.erase(0, std::min(digits.find_first_not_of('0'), digits.size()));
                if (ro) {
                        if (digits.size() > 16) {
                                out.unspecified = true;
                                return -1;
                        }
                        out.wsize = 0;
                        return r;
                }
                if (!size_ok)
                        return -1;
                if ((int)digits.size() > v.size * 2)
                        return -1;
                uint64_t val = 0;
                for (char c : digits)
                        val = (val << 4) | (uint64_t)hexval(c);
                out.store = true;
                out.newval = cur;
                store_le(out.newval, v.size, val);
                out.wsize = v.size;
                return r;
        }
        case T_BUFHEX: {
                size_t p = pos;
                bytes nv = cur;
                size_t cnt = 0;
                bool touched = false;
                while (true) {
                        if (at_end(p) || args[p] == ',') {
                                if (cnt == 0)
                                        return -1;
                                break;
                        }
                        int hi = hexval(args[p]);
                        if (hi < 0) {
                                out.partial = touched;
                                return -1;
                        }
                        if (at_end(p + 1)) {
                                out.partial = touched;
                                return -1;
                        }
                        int lo = hexval(args[p + 1]);
                        if (lo < 0) {
                                out.partial = touched;
                                return -1;
                        }
                        if ((int)cnt >= v.size) {
                                out.partial = touched;
                                return -1;
                        }
                        if (!ro) {
                                nv[cnt] = (char)(hi * 16 + lo);
                                touched = true;
                        }
                        cnt++;
                        p += 2;
                }
                int r = at_end(p) ? 0 : 1;
                pos = p + 1;
                if (ro) {
                        out.wsize = 0;
                        return r;
                }
                out.store = true;
                out.newval = nv;
                out.wsize = (int)cnt;
                return r;
        }
        case T_STRING: {
                size_t p = pos;
                bytes nv = cur;
                size_t cnt = 0;
                bool touched = false;
                if (at_end(p) || args[p] != '"')
                        return -1;
                p++;
                while (true) {
                        if (at_end(p)) {
                                out.partial = touched;
                                return -1;
                        }
                        char c = args[p++];
                        if (c == '"')
                                break;
                        if (c == '\\') {
                                if (at_end(p)) {
                                        out.partial = touched;
                                        return -1;
                                }
                                char e = args[p++];
                                if (e == '\\')
                                        c = '\\';
                                else if (e == '"')
                                        c = '"';
                                else if (e == 'n')
                                        c = '\n';
                                else {
                                        out.partial = touched;
                                        return -1;
                                }
                        }
                        if ((int)cnt >= v.size) {
                                out.partial = touched;
                                return -1;
                        }
                        if (!ro) {
                                nv[cnt] = c;
                                touched = true;
                        }
                        cnt++;
                }
                if (!at_end(p) && args[p] != ',') {
                        out.partial = touched;
                        return -1;
                }
                if ((int)cnt >= v.size) {
                        out.partial = touched;
                        return -1;
                }
                int r = at_end(p) ? 0 : 1;
                pos = p + 1;
                if (ro) {
                        out.wsize = 0;
                        return r;
                }
                nv[cnt] = 0;
                out.store = true;
                out.newval = nv;
                out.wsize = (int)cnt;
                return r;
        }
        }
        return -1;
}

// ---------------------------------------------------------------- name resolution

static std::vector<int> reg_order(const Plan &p)
{
        std::vector<int> r;
        for (size_t g = 0; g < p.groups.size(); g++)
                for (size_t i = 0; i < p.cmds.size(); i++)
                        if (p.cmds[i].registered && p.cmds[i].group == (int)g)
                                r.push_back((int)i);
        return r;
}

int resolve_name(const ModelState &m, const std::string &typed, bool ignore_disable)
{
        const Plan &p = *m.plan;
        int partial = -1, npartial = 0;
        for (int i : reg_order(p)) {
                if (!ignore_disable && m.disabled(i))
                        continue;
                std::string nm = upper(p.cmds[(size_t)i].name);
                if (nm == typed)
                        return i;
                if (nm.size() > typed.size() && nm.compare(0, typed.size(), typed) == 0) {
                        partial = i;
                        npartial++;
                }
        }
        if (npartial == 1)
                return partial;
        return npartial == 0 ? -1 : -2;
}

// ---------------------------------------------------------------- simulation

static bool valid_name_char(char c)
{
        return (c >= 'A' && c <= 'Z') || (c >= '0' && c <= '9') || c == '+' || c == '#' || c == '$' || c == '@' || c == '_' || c == '%' || c == '&';
}

static Item result_item(bool ok, const char *nl, const char *tag, const char *rule)
{
        Item it;
        it.kind = Item::U;
        it.tag = tag;
        it.rule = rule;
        it.is_result = true;
        it.alts.push_back(std::string(nl) + (ok ? "OK" : "ERROR") + nl);
        return it;
}

static Item either_result_item(const char *nl, const char *tag, const char *rule)
{
        Item it = result_item(true, nl, tag, rule);
        it.alts.push_back(std::string(nl) + "ERROR" + nl);
        return it;
}

static Item unit_item(const std::string &payload, const char *nl, bool flex, const char *tag, const char *rule, int cmd)
{
        Item it;
        it.kind = Item::U;
        it.tag = tag;
        it.rule = rule;
        it.cmd = cmd;
        it.flex = flex;
        it.alts.push_back(std::string(nl) + payload + nl);
        return it;
}

struct Ctx {
        ModelState &m;
        std::vector<Item> &items;
        int fsm;
        int cap;
        const char *nl; // newline of command units ("\n" for events, matched flexibly)
        bool flex;
};

static void finish(Ctx &c, bool ok, const char *tag, const char *rule)
{
        if (c.fsm == FSM_CMD)
                c.items.push_back(result_item(ok, c.nl, tag, rule));
}

static void hold(Ctx &c, int cmd)
{
        Item it;
        it.kind = Item::HOLDWAIT;
        it.tag = "C14";
        it.rule = "hold";
        it.cmd = cmd;
        it.data = c.nl; // newline style of the held line, used for the result code after release
        c.items.push_back(it);
}

static void cmd_list(Ctx &c)
{
        const Plan &p = *c.m.plan;
        for (int i : reg_order(p)) {
                if (c.m.disabled(i))
                        continue;
                const CmdSpec &cs = p.cmds[(size_t)i];
                bool readable = false, writable = false;
                if (!cs.var_null)
                        for (auto &v : cs.vars) {
                                readable |= v.access != ACC_WO;
                                writable |= v.access != ACC_RO;
                        }
                bool hasvars = !cs.var_null && !cs.vars.empty();
                std::vector<std::string> forms;
                if (!cs.only_test) {
                        if (cs.h[K_RUN])
                                forms.push_back("");
                        if (cs.h[K_READ] || readable)
                                forms.push_back("?");
                        if (cs.h[K_WRITE] || writable)
                                forms.push_back("=");
                }
                if (cs.h[K_TEST] || hasvars)
                        forms.push_back("=?");
                bool first = true;
                for (auto &f : forms) {
                        std::string text = std::string(first ? c.nl : "") + "AT" + cs.name + f + c.nl;
                        first = false;
                        if ((int)text.size() > c.cap - 1) {
                                finish(c, false, "C19", "list-line-does-not-fit");
                                return;
                        }
                        Item it;
                        it.kind = Item::U;
                        it.tag = "C19,C10"; // C19: list faithful to the descriptor; C10: PRINT_CMD_LIST_OK emits the list
                        it.rule = "cmd-list-line";
                        it.cmd = i;
                        it.alts.push_back(text);
                        c.items.push_back(it);
                }
        }
        finish(c, true, "C19", "list-ok");
}

// append the V items of one automatic READ formatting pass; false: formatting failed (reason in *why)
static bool format_read(Ctx &c, int ci, std::string &text, const char **why_tag, const char **why_rule)
{
        const CmdSpec &cs = c.m.plan->cmds[(size_t)ci];
        text = cs.name + "=";
        // the name and "=" are printed one after the other, each needing room for its NUL
        if ((int)cs.name.size() > c.cap - 1 || (int)text.size() > c.cap - 1) {
                *why_tag = "C11";
                *why_rule = "read-name-does-not-fit";
                return false;
        }
        bool readable = false;
        if (!cs.var_null)
                for (auto &v : cs.vars)
                        readable |= v.access != ACC_WO;
        if (!readable)
                return true;
        for (size_t i = 0; i < cs.vars.size(); i++) {
                const VarSpec &v = cs.vars[i];
                if (v.rcb) {
                        Item it;
                        it.kind = Item::V;
                        it.tag = "C10";
                        it.rule = "var-read-callback";
                        it.cmd = ci;
                        it.var = (int)i;
                        it.vkind = 0;
                        it.fsm = c.fsm;
                        c.items.push_back(it);
                        if (v.rcb == 2) {
                                *why_tag = "C10";
                                *why_rule = "var-read-callback-failed";
                                return false;
                        }
                }
                std::string t;
                if (!fmt_var(v, c.m.vals[(size_t)ci][i], t)) {
                        *why_tag = "U";
                        *why_rule = "unsupported-width";
                        return false;
                }
                if ((int)(text.size() + t.size()) > c.cap - 1) {
                        *why_tag = "C11";
                        *why_rule = "read-text-does-not-fit";
                        return false;
                }
                text += t;
                if (i + 1 < cs.vars.size())
                        text += ",";
        }
        return true;
}

static bool format_test(Ctx &c, int ci, std::string &text, const char **why_tag, const char **why_rule)
{
        const CmdSpec &cs = c.m.plan->cmds[(size_t)ci];
        text = cs.name + "=";
        *why_tag = "C19";
        *why_rule = "test-text-does-not-fit";
        if ((int)cs.name.size() > c.cap - 1 || (int)text.size() > c.cap - 1)
                return false;
        if (!cs.var_null)
                for (size_t i = 0; i < cs.vars.size(); i++) {
                        std::string t;
                        if (!fmt_info(cs.vars[i], t)) {
                                *why_tag = "U";
                                *why_rule = "unsupported-width";
                                return false;
                        }
                        if ((int)(text.size() + t.size()) > c.cap - 1)
                                return false;
                        text += t;
                        if (i + 1 < cs.vars.size())
                                text += ",";
                }
        if (cs.has_desc) {
                // newline and description are printed separately, each needing room for its NUL
                if ((int)(text.size() + strlen(c.nl)) > c.cap - 1)
                        return false;
                text += c.nl;
                if ((int)(text.size() + cs.desc.size()) > c.cap - 1)
                        return false;
                text += cs.desc;
        }
        return true;
}

static const Step *script_step(const CmdSpec &cs, int kind, size_t &si, Step &def, int *index)
{
        const std::vector<Step> &s = cs.script[kind];
        *index = si < s.size() ? (int)si : -1;
        if (si < s.size())
                return &s[si++];
        def = Step();
        def.code = (kind == K_READ || kind == K_TEST) ? RC_DATA_OK : RC_OK;
        return &def;
}

static void apply_action(Ctx &c, int ci, const Step &st, std::string *text)
{
        const CmdSpec &cs = c.m.plan->cmds[(size_t)ci];
        switch (st.act) {
        case A_SETTEXT:
                if (text && (int)st.text.size() <= c.cap - 1)
                        *text = st.text;
                break;
        case A_APPEND:
                if (text && (int)(text->size() + st.text.size()) <= c.cap - 1)
                        *text += st.text;
                break;
        case A_BUMP:
                if (st.a >= 0 && st.a < (int)cs.vars.size())
                        c.m.vals[(size_t)ci][(size_t)st.a][0] = (char)(c.m.vals[(size_t)ci][(size_t)st.a][0] + 1);
                break;
        default:
                break;
        }
}

// READ / TEST flow shared by the command FSM and the event FSM
static void rt_flow(Ctx &c, int ci, int kind)
{
        const CmdSpec &cs = c.m.plan->cmds[(size_t)ci];
        size_t si = 0;
        const char *data_tag = kind == K_READ ? "C10" : "C19";
        for (int guard = 0; guard < 4096; guard++) {
                std::string text;
                const char *wt = "U", *wr = "";
                bool ok = kind == K_READ ? format_read(c, ci, text, &wt, &wr) : format_test(c, ci, text, &wt, &wr);
                if (!ok) {
                        finish(c, false, wt, wr);
                        return;
                }
                if (kind == K_READ) {
                        bool readable = false;
                        if (!cs.var_null)
                                for (auto &v : cs.vars)
                                        readable |= v.access != ACC_WO;
                        if (!readable && !cs.h[K_READ]) {
                                finish(c, false, cs.vars.empty() ? "C09" : "C08", "read-nothing-readable");
                                return;
                        }
                }
                if (!cs.h[kind]) {
                        c.items.push_back(unit_item(text, c.nl, c.flex, data_tag, kind == K_READ ? "read-response" : "test-response", ci));
                        finish(c, true, data_tag, "auto-response-ok");
                        return;
                }
                Step def;
                int sidx = -1;
                const Step *st = script_step(cs, kind, si, def, &sidx);
                Item h;
                h.kind = Item::H;
                h.step = sidx;
                // C06: handlers receive the automatically formatted text; C10: re-invocation on a freshly formatted
                // buffer; C19: the TEST text lists every variable
                h.tag = kind == K_READ ? "C06,C10" : "C06,C10,C19";
                h.rule = kind == K_READ ? "read-handler-args" : "test-handler-args";
                h.cmd = ci;
                h.hkind = kind;
                h.fsm = c.fsm;
                h.data = text;
                h.maxsize = c.cap;
                h.ret = st->code;
                apply_action(c, ci, *st, &text);
                switch (st->code) {
                case RC_OK:
                        c.items.push_back(h);
                        finish(c, true, "C10", "handler-ok");
                        return;
                case RC_DATA_OK:
                        c.items.push_back(h);
                        c.items.push_back(unit_item(text, c.nl, c.flex, "C10", "handler-data-ok", ci));
                        finish(c, true, "C10", "handler-data-ok-result");
                        return;
                case RC_DATA_NEXT:
                        c.items.push_back(h);
                        c.items.push_back(unit_item(text, c.nl, c.flex, "C10", "handler-data-next", ci));
                        continue;
                case RC_NEXT:
                        c.items.push_back(h);
                        continue;
                case RC_HOLD:
                        h.enters_hold = c.fsm == FSM_CMD;
                        c.items.push_back(h);
                        if (c.fsm == FSM_CMD)
                                hold(c, ci);
                        return;
                case RC_HOLD_EXIT_OK:
                case RC_HOLD_EXIT_ERROR:
                        if (c.fsm == FSM_EV) {
                                h.release = st->code == RC_HOLD_EXIT_OK ? 1 : -1;
                                c.items.push_back(h);
                        } else {
                                // outside a hold the statement only requires "no data, exactly one result code"
                                c.items.push_back(h);
                                c.items.push_back(either_result_item(c.nl, "C10", "hold-exit-code-outside-hold"));
                        }
                        return;
                case RC_PRINT_CMD_LIST_OK:
                        c.items.push_back(h);
                        if (kind == K_TEST) {
                                if (c.fsm == FSM_CMD)
                                        cmd_list(c);
                                return;
                        }
                        finish(c, false, "C10", "invalid-code-for-read");
                        return;
                default:
                        c.items.push_back(h);
                        finish(c, false, "C10", "handler-error-code");
                        return;
                }
        }
}

// WRITE / RUN handler loop (command FSM only)
static void wr_loop(Ctx &c, int ci, int kind, const bytes &args, int args_num)
{
        const CmdSpec &cs = c.m.plan->cmds[(size_t)ci];
        size_t si = 0;
        for (int guard = 0; guard < 4096; guard++) {
                Step def;
                int sidx = -1;
                const Step *st = script_step(cs, kind, si, def, &sidx);
                Item h;
                h.kind = Item::H;
                h.step = sidx;
                h.tag = kind == K_WRITE ? "C06" : "C02";
                h.rule = kind == K_WRITE ? "write-handler-args" : "run-handler";
                h.cmd = ci;
                h.hkind = kind;
                h.fsm = FSM_CMD;
                h.data = args;
                h.args_num = args_num;
                h.ret = st->code;
                apply_action(c, ci, *st, nullptr);
                switch (st->code) {
                case RC_OK:
                case RC_DATA_OK:
                        c.items.push_back(h);
                        finish(c, true, "C10", "handler-ok");
                        return;
                case RC_DATA_NEXT:
                case RC_NEXT:
                        c.items.push_back(h);
                        continue;
                case RC_HOLD:
                        h.enters_hold = true;
                        c.items.push_back(h);
                        hold(c, ci);
                        return;
                case RC_PRINT_CMD_LIST_OK:
                        c.items.push_back(h);
                        if (kind == K_RUN) {
                                cmd_list(c);
                                return;
                        }
                        finish(c, false, "C10", "invalid-code-for-write");
                        return;
                default:
                        c.items.push_back(h);
                        finish(c, false, "C10", "handler-error-code");
                        return;
                }
        }
}

std::vector<Item> simulate_line(ModelState &m, const bytes &line, LineInfo *info)
{
        std::vector<Item> items;
        LineInfo li;
        const Plan &p = *m.plan;
        bytes L;
        bool seen = false;
        for (char ch : line) {
                if (ch == '\r') {
                        if (seen)
                                li.crlf = true;
                        continue;
                }
                if (ch == '\n')
                        continue;
                seen = true;
                L += ch;
        }
        const char *nl = li.crlf ? "\r\n" : "\n";
        Ctx c{m, items, FSM_CMD, p.cmd_cap(), nl, false};
        auto done = [&]() {
                if (info)
                        *info = li;
                return items;
        };
        auto err = [&](const char *tag, const char *rule) {
                li.verdict_tag = tag;
                items.push_back(result_item(false, nl, tag, rule));
                return done();
        };
        if (L.empty()) {
                li.blank = true;
                return done();
        }
        size_t n = L.size();
        if (up(L[0]) != 'A' || n < 2 || up(L[1]) != 'T')
                return err("C01", "bad-prefix");
        std::string name;
        size_t i = 2;
        int type = CT_NONE;
        bytes args;
        bool implicit = false;
        while (i < n) {
                char ch = up(L[i]);
                if (!valid_name_char(ch))
                        break;
                name += ch;
                i++;
                for (size_t k = 0; k < p.cmds.size() && !implicit; k++)
                        if (p.cmds[k].implicit && !m.disabled((int)k) && upper(p.cmds[k].name) == name)
                                implicit = true;
                if (implicit) {
                        type = CT_WRITE;
                        args = L.substr(i);
                        break;
                }
        }
        if (!implicit) {
                if (i == n) {
                        if (name.empty()) {
                                li.verdict_tag = "C01";
                                items.push_back(result_item(true, nl, "C01", "bare-at"));
                                return done();
                        }
                        type = CT_RUN;
                } else if (L[i] == '?') {
                        if (name.empty() || i + 1 != n)
                                return err("C01", "malformed-read");
                        type = CT_READ;
                } else if (L[i] == '=') {
                        if (name.empty())
                                return err("C01", "malformed-write");
                        type = CT_WRITE;
                        args = L.substr(i + 1);
                } else
                        return err("C01", "invalid-name-char");
        }
        int ci = resolve_name(m, name);
        if (ci < 0) {
                int alt = resolve_name(m, name, true);
                return err(alt != ci ? "C09" : "C02", ci == -1 ? "no-such-command" : "ambiguous-abbreviation");
        }
        const CmdSpec &cs = p.cmds[(size_t)ci];
        li.cmd = ci;
        bool readable = false, writable = false, hasvars = !cs.var_null && !cs.vars.empty();
        if (hasvars)
                for (auto &v : cs.vars) {
                        readable |= v.access != ACC_WO;
                        writable |= v.access != ACC_RO;
                }
        if (type == CT_WRITE && !args.empty() && args[0] == '?' && (cs.h[K_TEST] || hasvars) && !cs.implicit) {
                if (args.size() != 1)
                        return err("C01", "malformed-test");
                type = CT_TEST;
                args.clear();
        }
        li.type = type;
        li.args = args;
        switch (type) {
        case CT_RUN:
                if (cs.only_test)
                        return err("C09", "only-test-run");
                if (!cs.h[K_RUN])
                        return err("C09", "no-run-handler");
                li.verdict_tag = "C10";
                wr_loop(c, ci, K_RUN, bytes(), 0);
                // run handlers receive no data; clear the expectation
                for (auto &it : items)
                        if (it.kind == Item::H && it.hkind == K_RUN)
                                it.data.clear();
                return done();
        case CT_READ:
                if (cs.only_test)
                        return err("C09", "only-test-read");
                li.verdict_tag = "C10";
                rt_flow(c, ci, K_READ);
                return done();
        case CT_TEST:
                li.verdict_tag = "C19";
                rt_flow(c, ci, K_TEST);
                return done();
        case CT_WRITE: {
                if ((int)args.size() > c.cap - 1) {
                        // C06: not processed in truncated form; a line that is processed nevertheless also stores values the
                        // decoding properties forbid
                        bool num = false, buf = false;
                        if (writable)
                                for (auto &v : cs.vars) {
                                        num |= v.type <= T_HEX;
                                        buf |= v.type > T_HEX;
                                }
                        return err(num && buf ? "C06,C04,C05" : num ? "C06,C04" : buf ? "C06,C05" : "C06", "arguments-do-not-fit");
                }
                if (cs.only_test)
                        return err("C09", "only-test-write");
                int count = 0;
                // A NUL byte inside the argument text ends the C string the variable decoders work on; no
                // property covers that (DESIGN 3.3 rule 8): follow the observed behaviour but treat every
                // expectation of such a line as unspecified.
                bool nul_args = writable && args.find('\0') != bytes::npos;
                if (nul_args) {
                        bytes cut = args.substr(0, args.find('\0'));
                        std::vector<Item> sub;
                        size_t pos = 0;
                        bool failed = false;
                        for (size_t k = 0; k < cs.vars.size() && !failed; k++) {
                                const VarSpec &v = cs.vars[k];
                                ParseOut po;
                                int r = parse_var(v, m.vals[(size_t)ci][k], cut, pos, po);
                                m.havoc[(size_t)ci][k] = 1;
                                if (r < 0) {
                                        failed = true;
                                        break;
                                }
                                if (v.wcb) {
                                        Item it;
                                        it.kind = Item::V;
                                        it.tag = "U";
                                        it.rule = "var-write-callback";
                                        it.cmd = ci;
                                        it.var = (int)k;
                                        it.vkind = 1;
                                        it.wsize = po.wsize;
                                        items.push_back(it);
                                        if (v.wcb == 2) {
                                                failed = true;
                                                break;
                                        }
                                }
                                count = (int)k + 1;
                                if (r == 1 && k + 1 < cs.vars.size())
                                        continue;
                                if (r == 1)
                                        failed = true;
                                break;
                        }
                        if (!failed && cs.need_all && count != (int)cs.vars.size())
                                failed = true;
                        li.verdict_tag = "U";
                        if (failed || !cs.h[K_WRITE]) {
                                items.push_back(result_item(!failed, nl, "U", "nul-in-arguments"));
                                return done();
                        }
                        wr_loop(c, ci, K_WRITE, args, count);
                        for (auto &it : items)
                                it.tag = "U";
                        return done();
                }
                if (writable) {
                        size_t pos = 0;
                        for (size_t k = 0; k < cs.vars.size(); k++) {
                                const VarSpec &v = cs.vars[k];
                                ParseOut po;
                                const char *vt = (v.type == T_BUFHEX || v.type == T_STRING) ? "C05" : "C04";
                                int r = parse_var(v, m.vals[(size_t)ci][k], args, pos, po);
                                if (r < 0) {
                                        if (po.partial)
                                                m.havoc[(size_t)ci][k] = 1;
                                        return err(po.unspecified ? "U" : vt, "argument-rejected");
                                }
                                if (po.store)
                                        m.vals[(size_t)ci][k] = po.newval;
                                if (v.wcb) {
                                        Item it;
                                        it.kind = Item::V;
                                        it.tag = vt;
                                        it.rule = "var-write-callback";
                                        it.cmd = ci;
                                        it.var = (int)k;
                                        it.vkind = 1;
                                        it.wsize = po.wsize;
                                        items.push_back(it);
                                        if (v.wcb == 2)
                                                return err("C10", "var-write-callback-failed");
                                }
                                count = (int)k + 1;
                                if (r == 1 && k + 1 < cs.vars.size())
                                        continue;
                                if (r == 1)
                                        return err("C04", "too-many-arguments");
                                break;
                        }
                        if (cs.need_all && count != (int)cs.vars.size())
                                return err("C04", "need-all-vars");
                        if (!cs.h[K_WRITE]) {
                                li.verdict_tag = "C04";
                                items.push_back(result_item(true, nl, "C04", "write-stored"));
                                return done();
                        }
                } else if (!cs.h[K_WRITE])
                        return err(hasvars ? "C08" : "C09", "write-nothing-writable");
                li.verdict_tag = "C10";
                wr_loop(c, ci, K_WRITE, args, count);
                return done();
        }
        default:
                break;
        }
        return err("U", "internal");
}

std::vector<Item> simulate_event(ModelState &m, int cmd, int type)
{
        std::vector<Item> items;
        Ctx c{m, items, FSM_EV, m.plan->ev_cap(), "\n", true};
        rt_flow(c, cmd, type == CT_READ ? K_READ : K_TEST);
        return items;
}

std::string model_read_text(const ModelState &m, int cmd)
{
        const CmdSpec &cs = m.plan->cmds[(size_t)cmd];
        std::string text = cs.name + "=";
        for (size_t i = 0; i < cs.vars.size(); i++) {
                std::string t;
                if (!fmt_var(cs.vars[i], m.vals[(size_t)cmd][i], t))
                        t = "?";
                text += t;
                if (i + 1 < cs.vars.size())
                        text += ",";
        }
        return text;
}

std::string model_test_text(const Plan &p, int cmd, const char *nl)
{
        const CmdSpec &cs = p.cmds[(size_t)cmd];
        std::string text = cs.name + "=";
        for (size_t i = 0; i < cs.vars.size(); i++) {
                std::string t;
                if (!fmt_info(cs.vars[i], t))
                        t = "?";
                text += t;
                if (i + 1 < cs.vars.size())
                        text += ",";
        }
        if (cs.has_desc)
                text += std::string(nl) + cs.desc;
        return text;
}
